#!/bin/sh
# run.sh <PROPERTY-ID> <quick|thorough> : ensure the overlay venv, then run the check with -O
set -e
cd "$(dirname "$0")"
./setup.sh >/dev/null
exec ./.venv/bin/python -O check.py "$1" --tier "${2:-quick}"
