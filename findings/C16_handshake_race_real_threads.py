# Real-thread reproduction (real printcore, real sockets, a fake firmware with an ack latency given as argv[1])
# of the defect the C16 connect+statements cells found and 783d8f2 repaired: before the fix
# every write() returned one acknowledgement early. Usage: /verif/.venv/bin/python this.py 0.15
import socket, sys, threading, time
from gscrib.writers import SocketWriter
HANDSHAKE_LATENCY = float(sys.argv[1]) if len(sys.argv) > 1 else 0.15
LATENCY = 0.4
class FW:
    def __init__(self):
        self.received=[]; self.answered=[]; self.log=[]
        self.s=socket.socket(); self.s.setsockopt(socket.SOL_SOCKET, socket.SO_REUSEADDR,1); self.s.bind(("127.0.0.1",0)); self.s.listen(1)
        self.port=self.s.getsockname()[1]
        threading.Thread(target=self.serve,daemon=True).start()
    def serve(self):
        self.c,_=self.s.accept(); buf=b""
        while True:
            try: d=self.c.recv(1024)
            except OSError: return
            if not d: return
            buf+=d
            while b"\n" in buf:
                raw,buf=buf.split(b"\n",1); self.handle(raw.decode().strip())
    def handle(self,line):
        self.log.append(line)
        if line.startswith("M110") or line=="G4 P0":
            time.sleep(HANDSHAKE_LATENCY); self.c.sendall(b"ok\n"); return
        self.received.append(line); time.sleep(LATENCY); self.answered.append(line); self.c.sendall(b"ok\n")
fw=FW(); w=SocketWriter("127.0.0.1", fw.port)
bad=0; sent=[]
for k in range(4):
    st=f"G1 X{k+1}"; sent.append(st); t=time.monotonic(); w.write(st.encode()+b"\n"); dt=time.monotonic()-t
    ok = list(fw.answered)==sent
    print(f"write({st!r}) returned after {dt:.2f}s; device had answered {len(fw.answered)} of {len(sent)}", "ok" if ok else "EARLY")
    bad += not ok
time.sleep(1); print("device log:", fw.log); w.disconnect(); sys.exit(1 if bad else 0)
