"""Cell runner: parallel exploration, replay, known findings, evidence."""

from __future__ import annotations

import importlib
import json
import multiprocessing as mp
import os
import subprocess
import sys
import time
from dataclasses import dataclass, field
from typing import Any, Callable, Dict, List, Optional

ROOT = os.path.dirname(os.path.dirname(os.path.abspath(__file__)))
EVIDENCE_DIR = os.path.join(ROOT, "evidence")
REPLAY_DIR = os.path.join(ROOT, "replays")
if os.environ.get("VF_REPO"):
    # experiments against a scratch worktree never touch the registered evidence
    EVIDENCE_DIR = os.path.join("/tmp", "vf_scratch", "evidence")
    REPLAY_DIR = os.path.join("/tmp", "vf_scratch", "replays")
KNOWN_FILE = os.environ.get("VF_KNOWN") or os.path.join(ROOT, "KNOWN_FINDINGS.txt")  # VF_KNOWN: self-test only

EXIT_OK, EXIT_VIOLATION, EXIT_HARNESS = 0, 1, 3


@dataclass
class Cell:
    name: str
    fn: Callable
    budget_s: float = 60.0
    per_path_s: float = 10.0
    must_reach: tuple = ()
    entry: str = ""           # gscrib entry point driven by this cell
    note: str = ""


def load_known() -> List[Dict[str, Any]]:
    """KNOWN_FINDINGS.txt, one entry per line:
         known: property=<id> kind=<kind> :: <what fails>
         fixed: property=<id> <commit> <what failed>
    Only 'known' entries suppress anything; 'fixed' entries are a record."""
    out = []
    if not os.path.exists(KNOWN_FILE):
        return out
    with open(KNOWN_FILE) as f:
        for line in f:
            line = line.strip()
            if line.startswith("known:"):
                head, _, what = line[len("known:"):].partition("::")
                fields = dict(tok.split("=", 1) for tok in head.split() if "=" in tok)
                out.append({"property": fields.get("property"), "kind": fields.get("kind"),
                            "what": what.strip(), "status": "open"})
    return out


def known_kinds_for(prop: str) -> Dict[str, Dict[str, Any]]:
    return {k["kind"]: k for k in load_known() if k["property"] == prop}


def _run_cell(job):
    prop_mod, tier, cell_name, known = job
    from . import driver  # noqa: F401  (imports crosshair)
    from . import shims
    from .mode import MODE
    MODE.symbolic = True
    mod = importlib.import_module(prop_mod)
    shims.install_permanently()
    cell = next(c for c in mod.cells(tier) if c.name == cell_name)
    try:
        res = driver.explore(cell.fn, name=cell.name, budget_s=cell.budget_s,
                             per_path_s=cell.per_path_s, known_kinds=frozenset(known))
    except BaseException as e:  # noqa: BLE001
        import traceback
        res = driver.CellResult(name=cell.name, verdict="harness_error",
                                detail=f"driver crashed: {type(e).__name__}: {e}\n"
                                       + traceback.format_exc())
    missing = [t for t in cell.must_reach if t not in res.tags]
    if res.verdict == "confirmed" and missing and not res.known_hits:
        res.verdict = "harness_error"
        res.detail = f"vacuous: reachability witnesses never reached: {missing}"
    res.meta = {"entry": cell.entry, "note": cell.note, "budget_s": cell.budget_s,
                "must_reach": list(cell.must_reach)}
    return res


def write_replay(prop: str, cell: str, args: Dict[str, Any], kind: str, tier: str) -> str:
    os.makedirs(REPLAY_DIR, exist_ok=True)
    safe = "".join(ch if ch.isalnum() or ch in "-_." else "_" for ch in cell)
    path = os.path.join(REPLAY_DIR, f"{prop}_{safe}.py")
    with open(path, "w") as f:
        f.write(
            "#!/verif/.venv/bin/python\n"
            f"# Replay of a counterexample for {prop}, cell {cell!r} ({kind}).\n"
            "# Runs the same oracle against the unmodified gscrib: no shims, typeguard on,\n"
            "# pre-state built through the public API. Exit 1 = reproduced.\n"
            "import sys\n"
            f"sys.path.insert(0, {ROOT!r})\n"
            "from vf.replay import main\n"
            f"nan = float('nan'); inf = float('inf')\n"
            f"main({prop!r}, {tier!r}, {cell!r}, {args!r})\n"
        )
    return path


def run_replay(path: str) -> (int, str):
    py = os.path.join(ROOT, ".venv", "bin", "python")
    p = subprocess.run([py, path], capture_output=True, text=True, timeout=600)
    return p.returncode, (p.stdout + p.stderr).strip()


def run_property(prop: str, tier: str, jobs: int = 16, only: Optional[str] = None) -> int:
    t0 = time.time()
    prop_mod = f"vf.props.{prop.lower()}"
    mod = importlib.import_module(prop_mod)
    seed = int(os.environ.get("VERIF_SEED", "0") or 0)
    known = known_kinds_for(prop)
    cells = mod.cells(tier)
    if only:
        cells = [c for c in cells if only in c.name]
    # translator / shim validation on concrete inputs
    validation = {}
    if hasattr(mod, "validate"):
        validation = mod.validate()
        if validation.get("failures"):
            print(f"HARNESS-ERROR property={prop} shim/translator validation failed: "
                  f"{validation['failures'][:3]}")
            write_evidence(prop, tier, seed, mod, [], [], [], validation, time.time() - t0,
                           harness_errors=len(validation["failures"]))
            return EXIT_HARNESS
    order = sorted(cells, key=lambda c: -c.budget_s)
    jobs_list = [(prop_mod, tier, c.name, list(known)) for c in order]
    ctx = mp.get_context("fork")
    results = []
    with ctx.Pool(processes=min(jobs, max(1, len(jobs_list))), maxtasksperchild=1) as pool:
        for res in pool.imap_unordered(_run_cell, jobs_list):
            results.append(res)
            if res.verdict != "confirmed" or os.environ.get("VF_VERBOSE"):
              print(f"  [{res.verdict:14s}] {res.name}  paths={res.paths} "
                  f"solver={res.solver_calls}/{res.solver_s:.2f}s wall={res.wall_s:.1f}s"
                  + (f"  known={list(res.known_hits)}" if res.known_hits else "")
                  + (f"  {res.reason}" if res.reason else ""), flush=True)
    results.sort(key=lambda r: r.name)

    violations, harness_errors, known_lines = [], [], []
    # known findings: confirm each still reproduces (once per kind)
    seen_known: Dict[str, Any] = {}
    for r in results:
        for kind, hit in r.known_hits.items():
            seen_known.setdefault(kind, (r.name, hit))
    for kind, (cell, hit) in sorted(seen_known.items()):
        path = write_replay(prop, cell + "__known", hit["args"], kind, tier)
        rc, out = run_replay(path)
        if rc == 1 and f"REPRODUCED {kind}" in out:
            known_lines.append(f"KNOWN-FINDING: property={prop} {kind} — {known[kind]['what']}")
        else:
            harness_errors.append(f"known finding {kind} found symbolically in {cell} but "
                                  f"replay did not reproduce (rc={rc}): {out[-300:]}")
    by_kind: Dict[str, List[Any]] = {}
    for r in results:
        if r.verdict == "counterexample":
            by_kind.setdefault(r.kind, []).append(r)
        elif r.verdict == "harness_error":
            harness_errors.append(f"cell {r.name}: {r.detail[-1500:]}")
    # Replay: every counterexample is re-run against the unmodified code; one VIOLATION
    # line per distinct kind (first reproducing cell), the other cells are listed with it.
    from concurrent.futures import ThreadPoolExecutor
    # every counterexample cell is replayed (capped at 48 per kind): a kind counts as reproduced
    # if ANY of its cells reproduces; it is a harness error only if none does
    todo = [(kind, r, write_replay(prop, r.name, r.counterexample, r.kind, tier))
            for kind, rs in sorted(by_kind.items()) for r in rs[:48]]
    with ThreadPoolExecutor(max_workers=12) as ex:
        outs = list(ex.map(lambda t: run_replay(t[2]), todo))
    reproduced_kinds = set()
    for (kind, r, path), (rc, out) in zip(todo, outs):
        if rc == 1 and "REPRODUCED" in out:
            if kind not in reproduced_kinds:
                reproduced_kinds.add(kind)
                r.meta["same_kind_cells"] = [x.name for x in by_kind[kind]]
                violations.append((r, path, out))
    for (kind, r, path), (rc, out) in zip(todo, outs):
        if kind not in reproduced_kinds:
            reproduced_kinds.add(kind)  # report once
            harness_errors.append(
                f"cell {r.name}: counterexample {r.detail!r} with "
                f"{ {k: repr(v) for k, v in r.counterexample.items()} } did not reproduce "
                f"(rc={rc}): {out[-400:]}")

    for line in known_lines:
        print(line)
    for r, path, out in violations:
        print(f"VIOLATION property={prop} replay={path}")
        print(f"  cell={r.name} {r.detail}")
        print(f"  cells with the same kind of violation: {len(r.meta.get('same_kind_cells', []))}")
        print("  " + out.replace("\n", "\n  ")[-800:])
    for h in harness_errors:
        print(f"HARNESS-ERROR property={prop} {h}")
    wall = time.time() - t0
    write_evidence(prop, tier, seed, mod, results, violations, known_lines, validation, wall,
                   harness_errors=len(harness_errors))
    n_conf = sum(1 for r in results if r.verdict == "confirmed")
    n_inc = sum(1 for r in results if r.verdict == "inconclusive")
    print(f"{prop} {tier}: cells={len(results)} confirmed={n_conf} inconclusive={n_inc} "
          f"violations={len(violations)} known={len(known_lines)} "
          f"harness_errors={len(harness_errors)} wall={wall:.1f}s")
    if violations:
        return EXIT_VIOLATION
    if harness_errors:
        return EXIT_HARNESS
    return EXIT_OK


def write_evidence(prop, tier, seed, mod, results, violations, known_lines, validation,
                   wall, harness_errors=0):
    os.makedirs(EVIDENCE_DIR, exist_ok=True)
    paths = sum(r.paths for r in results)
    completed = sum(r.confirmed_paths for r in results)
    confirmed = [r for r in results if r.verdict == "confirmed"]
    samples = []
    for r in results[:4]:
        samples.append({"cell": r.name, "verdict": r.verdict, "paths": r.paths,
                        "entry": r.meta.get("entry"), "note": r.meta.get("note")})
    for r, path, out in violations[:3]:
        samples.append({"cell": r.name, "violation": r.detail,
                        "counterexample": {k: repr(v) for k, v in r.counterexample.items()},
                        "replay": path})
    ev = {
        "property_id": prop,
        "tier": tier,
        "seed": seed,
        "level": "other",
        "wall_s": round(wall, 2),
        "violations": len(violations),
        "coverage": {
            "explanation": (
                "Bounded symbolic execution of the real gscrib code with CrossHair/z3. "
                "Each cell fixes the discrete structure of one call (entry point, None "
                "pattern, enum values, sizes) and z3 decides the property for all numeric/"
                "text content on every path of the real code. 'confirmed' = all paths "
                "exhausted, none violating, none unknown. " + getattr(mod, "BOUNDS", "")
            ),
            "engine": "crosshair-tool 0.0.110 + z3-solver (python -O; typeguard off)",
            "functions_encoded": getattr(mod, "FUNCTIONS", []),
            "bounds": getattr(mod, "BOUNDS", ""),
            "obligations": len(results),
            "discharged": len(confirmed),
            "cells_inconclusive": [
                {"cell": r.name, "reason": r.reason, "paths": r.paths}
                for r in results if r.verdict == "inconclusive"],
            "harness_errors": harness_errors,
            "evaluations": paths,
            "distinct_nontrivial": completed,
            "rule": ("evaluations = execution paths explored (each a distinct, satisfiable "
                     "path condition = an equivalence class of inputs); distinct_nontrivial "
                     "= paths that ran the real entry point to completion through the "
                     "property assertions (assumption-pruned paths excluded)"),
            "queries_discharged": sum(r.solver_calls for r in results),
            "solver_time_s": round(sum(r.solver_s for r in results), 2),
            "solver_unknown": sum(r.solver_unknown for r in results),
            "exhaustive": bool(results) and len(confirmed) == len(results),
            "known_findings_seen": known_lines,
            "shim_validation": validation,
            "samples": samples,
            "cells": [r.to_json() for r in results],
        },
        "assumptions": getattr(mod, "ASSUMPTIONS", []) + COMMON_ASSUMPTIONS,
    }
    with open(os.path.join(EVIDENCE_DIR, f"{prop}.json"), "w") as f:
        json.dump(ev, f, indent=1, default=repr)


COMMON_ASSUMPTIONS = [
    "floats are modelled as reals plus the concrete values NaN, +inf, -inf; IEEE rounding "
    "is outside the claim",
    "well-typed calls only: symbolic runs use python -O, under which typeguard's "
    "@typechecked is a no-op; replays run with typeguard active",
    "numpy shims: np.isfinite -> math.isfinite, np.format_float_positional -> opaque "
    "token (contract: correctly rounded plain decimal), np.array in Point.to_vector -> "
    "pure-Python vector multiplied by the real concrete matrix",
    "pre-states are installed by assigning private fields; every reported counterexample "
    "is rebuilt through the public API before it is reported",
]
