"""Concrete replay of one cell with the solver's values (typeguard on)."""

import importlib
import sys
import traceback


def main(prop: str, tier: str, cell_name: str, args: dict) -> None:
    from .mode import MODE
    from .fixture import Unreachable
    MODE.symbolic = False
    mod = importlib.import_module(f"vf.props.{prop.lower()}")
    base = cell_name[:-len("__known")] if cell_name.endswith("__known") else cell_name
    cell = next(c for c in mod.cells(tier) if c.name == base)
    try:
        ret = cell.fn(**args)
    except Unreachable as e:
        print(f"UNREACHABLE pre-state: {e}")
        sys.exit(4)
    except Exception:  # noqa: BLE001
        traceback.print_exc()
        print("REPLAY-ERROR exception escaped the harness")
        sys.exit(5)
    if ret is None:
        print("NOT-REPRODUCED property held on the concrete run")
        sys.exit(0)
    print(f"REPRODUCED {ret.text()}")
    sys.exit(1)
