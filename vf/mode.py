"""Execution mode shared by harnesses.

symbolic=True : running under CrossHair, numpy shims installed, pre-states
                installed privately, numbers compared exactly (reals).
symbolic=False: concrete replay against the unmodified code: no shims,
                typeguard active, pre-state built through the public API,
                numbers compared up to output rounding.
"""


class _Mode:
    symbolic = True
    decimal_places = 5
    history_pre = False   # symbolic runs build the pre-state through public calls (a true history)


MODE = _Mode()


class V:
    """A property violation reported by a harness."""

    __slots__ = ("kind", "detail")

    def __init__(self, kind: str, detail: str = ""):
        self.kind = kind
        self.detail = detail

    def text(self) -> str:
        d = self.detail() if callable(self.detail) else self.detail
        return f"{self.kind}: {d}"

    def __repr__(self):
        return self.text()


_TAGS = set()


def reached(tag: str) -> None:
    """Reachability witness: the current (feasible) path got here."""
    _TAGS.add(tag)


def take_tags():
    t = set(_TAGS)
    _TAGS.clear()
    return t


def num_eq(a, b, scale=1.0) -> bool:
    """Equality of two numbers: exact when symbolic, up to output rounding
    of the configured decimal places when replaying concretely."""
    if a is None or b is None:
        return a is b
    if MODE.symbolic:
        return a == b
    # half a unit of the last printed place (with 20% slack) plus a few ulps of float arithmetic
    tol = scale * (0.6 * 10 ** (-MODE.decimal_places)) + 1e-14 * max(1.0, abs(a), abs(b))
    if a != a or b != b:
        return (a != a) and (b != b)
    if a in (float("inf"), float("-inf")) or b in (float("inf"), float("-inf")):
        return a == b
    return abs(a - b) <= tol
