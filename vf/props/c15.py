"""C15 — streamed print jobs: framing, numbering, checksums and the resend path
(single-threaded co-simulation of the real sender with a firmware model)."""

import ast
import inspect
import itertools
import textwrap

from ..runner import Cell
from ..driver import FixedStr, assume
from ..mode import MODE, V, reached

PROPERTY_ID = "C15"
FUNCTIONS = [
    "printcore.startprint (thread creation stubbed)", "printcore._reset_line_numbers",
    "printcore._sendnext", "printcore._send", "printcore._checksum", "printcore._listen",
    "printcore._readline", "gcoder.GCode (job container, concrete text)",
    "gcoder.gcode_strip_comment_exp",
]
BOUNDS = ("(1) Protocol: the real startprint/_sendnext/_send/_listen code is driven single-threaded "
          "against a Marlin-style firmware model (line numbers, XOR checksum, 'Resend: n' + 'ok'). "
          "Cell grid: 5 concrete jobs (comment-only and trailing-comment lines, a layered job with "
          "z-hops and an end script, a 14-line job) x number K of transmissions that may be "
          "corrupted (quick 5, thorough up to 10; for the long job a window of 4 starting at transmission "
          "8-11, i.e. two-digit line numbers). Solver over: which of the "
          "first K job transmissions are corrupted (2^K patterns, including repeated corruption of "
          "a resent line). Checked: every frame is N<k> <cmd>*<xor>, numbering restarts at 0 after "
          "M110 N-1, a resend request is followed by transmission of exactly the requested line, "
          "and the firmware accepts every non-comment job line exactly once, in order. "
          "(2) Framing: _send with a symbolic command text (1-3 printable ASCII characters) and a "
          "grid of line numbers, _checksum stubbed to a recorded opaque value: the frame is "
          "'N'+n+' '+cmd+'*'+checksum+LF, the checksum argument is the text before '*', and the "
          "frame is stored for resending. (3) _checksum: its source is translated from the AST to "
          "z3 bit-vectors and proved equal to the XOR of all bytes for every string of 1..8 bytes.")
ASSUMPTIONS = [
    "sender reuse is examined only for one earlier job (completed, or cancelled after two lines) over a clean link",
    "ONE schedule only: sender and reader steps strictly alternate (threading.Thread is stubbed); "
    "delivery under real thread schedules and response latencies is NOT claimed",
    "the M110 reset frame itself is never corrupted; after the K-th transmission the link is clean",
    "the serial device is a recording stub; time.sleep is never reached because 'clear' is set",
]

JOBS = {
    "plain": ["G1 X1", "G1 X2", "M105", "G1 X3"],
    "comments": ["; header", "G1 X1 ; first", "", "G28", "(note)", "M400"],
    "short": ["G0 Z5", "M3 S100"],
    # layer structure as the job container sees it: Z changes, a z-hop back to the same height,
    # a non-extruding end script after the last layer
    "layers": ["G28", "G1 Z0.2 F600", "G1 X10 Y0 E1", "G1 Z0.6", "G1 X10 Y10", "G1 Z0.2",
               "G1 X0 Y10 E2", "G1 Z0.4", "G1 X0 Y0 E3", "G1 Z5", "G1 X0 Y0", "M84"],
    "long": [f"G1 X{i}" for i in range(14)],
}


def _strip(line):
    # independent comment stripping for the expectation: ';' to end of line and (...) groups
    out, depth = "", 0
    for ch in line:
        if ch == ";" and depth == 0:
            break
        if ch == "(":
            depth += 1
            continue
        if ch == ")" and depth > 0:
            depth -= 1
            continue
        if depth == 0:
            out += ch
    return out.strip()


class Dev:
    """Recording serial device stub (no flow control -> numbered, checksummed frames)."""
    has_flow_control = False
    is_connected = True

    def __init__(self):
        self.written = []
        self.inbox = []

    def write(self, data):
        self.written.append(data)

    def readline(self):
        if self.inbox:
            return self.inbox.pop(0)
        return None  # READ_EOF: ends the _listen loop

    def disconnect(self):
        pass


class Firmware:
    """Marlin-style receiver."""

    def __init__(self):
        self.last_n = None
        self.accepted = []
        self.log = []

    def receive(self, frame: str, corrupted: bool):
        """Returns the response lines."""
        if not frame.endswith("\n") or frame.count("\n") != 1:
            return ["malformed"]
        body = frame[:-1]
        if "*" not in body or not body.startswith("N"):
            return ["malformed"]
        head, _, cs = body.rpartition("*")
        x = 0
        for ch in head:
            x ^= ord(ch)
        num, _, cmd = head[1:].partition(" ")
        try:
            n = int(num)
            ok = (not corrupted) and int(cs) == x
        except ValueError:
            return ["malformed"]
        if cmd.startswith("M110"):
            if ok:
                self.last_n = n
                return ["ok"]
            return ["malformed"]
        expect = (self.last_n if self.last_n is not None else -1) + 1
        if not ok or n != expect:
            self.log.append(("resend", expect, n, ok))
            return [f"Resend: {expect}", "ok"]
        self.last_n = n
        self.accepted.append(cmd)
        return ["ok"]


def _make_protocol(job_name, K, first=0, previous=None):
    """previous: None | 'completed' | 'cancelled' -- an earlier job streamed through the SAME sender
    object (to the end, or cancelled after two of its lines) before the job under examination."""
    import importlib
    pc_mod = importlib.import_module("gscrib.printrun.printcore")
    gcoder = importlib.import_module("gscrib.printrun.gcoder")

    class NoThread:
        def __init__(self, *a, **k):
            pass

        def start(self):
            pass

        def join(self, *a):
            pass

    def core(flags):
        job = JOBS[job_name]
        want = [s for s in (_strip(l) for l in job) if s]
        p = pc_mod.printcore()
        p.errorcb = lambda e: None
        dev = Dev()
        p.printer = dev
        p.online = True
        real_thread = pc_mod.threading.Thread
        pc_mod.threading.Thread = NoThread
        try:
            if previous is not None:
                # an earlier job on the same sender, over a clean link
                earlier = ["G28", "G1 X1 F900", "G1 X2", "G1 X3", "G1 X4", "M400"]
                p.startprint(gcoder.GCode(earlier))
                fw0 = Firmware()
                seen0 = 0
                for step in range(40):
                    while seen0 < len(dev.written):
                        frame = dev.written[seen0].decode("ascii")
                        seen0 += 1
                        dev.inbox = [(r + "\n").encode("ascii") for r in fw0.receive(frame, False)]
                        p.stop_read_thread = False
                        p._listen()
                    if not p.printing:
                        break
                    if previous == "cancelled" and step == 3:
                        p.cancelprint()
                        break
                    p.clear = True
                    p._sendnext()
                if p.printing:
                    return V("earlier-job-does-not-finish", lambda: f"wire={dev.written!r}")
                # let the firmware answer whatever is still on the wire, then start afresh
                while seen0 < len(dev.written):
                    frame = dev.written[seen0].decode("ascii")
                    seen0 += 1
                    dev.inbox = [(r + "\n").encode("ascii") for r in fw0.receive(frame, False)]
                    p.stop_read_thread = False
                    p._listen()
                del dev.written[:]
            started = p.startprint(gcoder.GCode(list(job)))
        finally:
            pc_mod.threading.Thread = real_thread
        if not started:
            return V("startprint-refused", "startprint returned False")
        fw = Firmware()
        seen = 0
        tx = -1              # index of job transmissions (the M110 frame is not counted)
        pending_resend = None
        steps = 0
        while True:
            # firmware consumes what was written, reader thread body processes the replies
            while seen < len(dev.written):
                frame = dev.written[seen].decode("ascii")
                seen += 1
                is_reset = "M110" in frame
                corrupted = False
                if not is_reset:
                    tx += 1
                    if first <= tx < first + K:
                        corrupted = flags[tx - first]
                    if pending_resend is not None:
                        num = frame[1:].split(" ", 1)[0]
                        if num != str(pending_resend):
                            return V("resend-request-not-followed",
                                     lambda: f"firmware asked for line {pending_resend}, next frame "
                                             f"was {frame!r}; wire={dev.written!r} flags={flags!r}")
                        pending_resend = None
                replies = fw.receive(frame, corrupted)
                if replies == ["malformed"]:
                    return V("malformed-frame", lambda: f"{frame!r}; wire={dev.written!r}")
                for r in replies:
                    if r.startswith("Resend"):
                        pending_resend = int(r.split(":")[1])
                dev.inbox = [(r + "\n").encode("ascii") for r in replies]
                p.stop_read_thread = False
                p._listen()
            if not p.printing:
                break
            steps += 1
            if steps > 4 * (len(job) + K) + 8:
                return V("job-does-not-finish",
                         lambda: f"after {steps} sender steps; accepted={fw.accepted!r} "
                                 f"wire={dev.written!r} flags={flags!r}")
            p.clear = True
            p._sendnext()
        if fw.accepted != want:
            return V("firmware-did-not-get-the-job-once-in-order",
                     lambda: f"accepted {fw.accepted!r}, job is {want!r}; wire={dev.written!r} "
                             f"flags={flags!r}")
        frame0 = dev.written[0].decode("ascii")
        if not frame0.startswith("N-1 M110 N-1*"):
            return V("no-line-number-reset", lambda: f"first frame {frame0!r}")
        reached("finished")
        return None

    params = [f"c{i}" for i in range(K)]
    src = f"def h({', '.join(params)}):\n    return core([{', '.join(params)}])\n"
    ns = {"core": core}
    exec(src, ns)
    h = ns["h"]
    h.__annotations__ = {p: bool for p in params}
    return h


def _make_framing(length, lineno):
    import importlib
    pc_mod = importlib.import_module("gscrib.printrun.printcore")

    def h(cmd):
        for ch in cmd:
            assume(32 <= ord(ch))
            assume(ord(ch) < 127)
        assume(cmd[0] != " ")
        p = pc_mod.printcore()
        dev = Dev()
        p.printer = dev

        class An:
            def append(self, *a, **k):
                return None
        p.analyzer = An()
        seen = []

        def fake_checksum(text):
            seen.append(text)
            return 77
        if MODE.symbolic:
            p._checksum = fake_checksum
        p._send(cmd, lineno, True)
        if len(dev.written) != 1:
            return V("framing-write-count", lambda: f"{dev.written!r}")
        prefix = "N" + str(lineno) + " " + cmd
        if MODE.symbolic:
            cs = "77"
            if len(seen) != 1 or seen[0] != prefix:
                return V("checksum-not-over-the-text-before-the-star",
                         lambda: f"checksum computed over {seen!r}, frame prefix is {prefix!r}")
        else:
            x = 0
            for ch in prefix:
                x ^= ord(ch)
            cs = str(x)
        want = prefix + "*" + cs
        got = dev.written[0].decode("ascii")
        if got != want + "\n":
            return V("frame-text-wrong", lambda: f"wrote {got!r}, expected {want + chr(10)!r}")
        stored = p.sentlines.get(lineno)
        is_reset = "M110" in want
        if not is_reset and stored != want:
            return V("frame-not-kept-for-resend", lambda: f"sentlines[{lineno}]={stored!r}")
        if p.sent[-1] != want:
            return V("sent-log-wrong", lambda: f"{p.sent!r}")
        reached("framed")
        return None

    h.__annotations__ = {"cmd": FixedStr(length)}
    return h


def _checksum_to_z3(nbytes):
    """Translate printcore._checksum from its AST to z3 bit-vectors for a string of nbytes."""
    import z3
    import importlib
    printcore = importlib.import_module("gscrib.printrun.printcore").printcore
    src = textwrap.dedent(inspect.getsource(printcore._checksum))
    fn = ast.parse(src).body[0]
    ret = fn.body[-1]
    if not isinstance(ret, ast.Return):
        raise NotImplementedError("unexpected shape of _checksum")
    call = ret.value
    # expected: reduce(lambda x, y: EXPR, map(ord, command))
    if not (isinstance(call, ast.Call) and getattr(call.func, "id", "") == "reduce"
            and isinstance(call.args[0], ast.Lambda)):
        raise NotImplementedError("unexpected shape of _checksum")
    lam = call.args[0]
    names = [a.arg for a in lam.args.args]
    seq = call.args[1]
    if not (isinstance(seq, ast.Call) and getattr(seq.func, "id", "") == "map"
            and getattr(seq.args[0], "id", "") == "ord" and len(call.args) == 2):
        raise NotImplementedError("unexpected sequence expression in _checksum")
    arg = seq.args[1]
    chars = [z3.BitVec(f"b{i}", 32) for i in range(nbytes)]
    constraints = [z3.ULE(c, 255) for c in chars]
    if isinstance(arg, ast.Name):
        items = chars
    elif isinstance(arg, ast.Subscript) and isinstance(arg.slice, ast.Slice):
        lo = arg.slice.lower.value if arg.slice.lower is not None else None
        hi = arg.slice.upper.value if arg.slice.upper is not None else None
        items = chars[lo:hi]
    else:
        raise NotImplementedError("unexpected argument of map() in _checksum")

    def ev(node, env):
        if isinstance(node, ast.Name):
            return env[node.id]
        if isinstance(node, ast.Constant) and isinstance(node.value, int):
            return z3.BitVecVal(node.value, 32)
        if isinstance(node, ast.BinOp):
            a, b = ev(node.left, env), ev(node.right, env)
            ops = {ast.BitXor: lambda: a ^ b, ast.BitOr: lambda: a | b, ast.BitAnd: lambda: a & b,
                   ast.Add: lambda: a + b, ast.Sub: lambda: a - b, ast.Mod: lambda: z3.URem(a, b),
                   ast.LShift: lambda: a << b, ast.RShift: lambda: z3.LShR(a, b)}
            return ops[type(node.op)]()
        raise NotImplementedError(ast.dump(node))

    if not items:
        raise NotImplementedError("empty reduce")
    acc = items[0]
    for c in items[1:]:
        acc = ev(lam.body, {names[0]: acc, names[1]: c})
    ref = chars[0]
    for c in chars[1:]:
        ref = ref ^ c
    return chars, constraints, acc, ref


def _make_checksum(nbytes):
    def h():
        # plain z3 query built from the function's AST: no CrossHair tracing needed
        from crosshair.tracers import NoTracing
        with NoTracing():
            return body()

    def body():
        import z3
        import importlib
        printcore = importlib.import_module("gscrib.printrun.printcore").printcore
        try:
            chars, cons, got, ref = _checksum_to_z3(nbytes)
        except NotImplementedError as e:
            msg = str(e)
            return V("checksum-source-not-translatable", msg)
        s = z3.Solver()
        s.set(timeout=60000)
        s.add(*cons)
        s.add(got != ref)
        r = s.check()
        if str(r) == "unsat":
            # translator validation: the real function on sample strings
            for text in ("N0 G1 X1", "N-1 M110 N-1", "a", "zz", "N12 M105"):
                if len(text) >= 1:
                    x = 0
                    for ch in text:
                        x ^= ord(ch)
                    if printcore()._checksum(text) != x:
                        return V("checksum-differs-on-sample",
                                 lambda: f"{text!r}: real {printcore()._checksum(text)} xor {x}")
            reached("unsat")
            return None
        if str(r) == "sat":
            m = s.model()
            text = "".join(chr(m.eval(c, model_completion=True).as_long()) for c in chars)
            return V("checksum-is-not-the-xor-of-the-bytes",
                     lambda: f"for {text!r} the implementation does not return the XOR of all bytes")
        return V("checksum-query-unknown", "z3 returned unknown")
    return h


def _make_checksum_replay(nbytes):
    # concrete replays evaluate the real function on the witness (the symbolic cell has no arguments)
    return _make_checksum(nbytes)


def cells(tier):
    out = []
    quick = tier == "quick"
    for job in JOBS:
        for K in ((5,) if quick else (4, 8, 10)):
            if job == "long":
                continue
            out.append(Cell(f"protocol|job={job}|K={K}", _make_protocol(job, K),
                            budget_s=300 if quick else 1800, must_reach=("finished",),
                            entry="printcore._sendnext/_listen"))
    # corruption late in a longer job: resend requests for two-digit line numbers
    for first in ((9,) if quick else (8, 10, 11)):
        out.append(Cell(f"protocol|job=long|K=4|from-transmission={first}", _make_protocol("long", 4, first),
                        budget_s=300 if quick else 1800, must_reach=("finished",),
                        entry="printcore._sendnext/_listen"))
    first_job = list(JOBS)[0]
    for previous in ("completed", "cancelled"):
        for job in ([first_job] if quick else list(JOBS)):
            out.append(Cell(f"protocol|job={job}|K=2|after-a-{previous}-job", _make_protocol(job, 2, 0, previous),
                            budget_s=300 if quick else 900, must_reach=("finished",),
                            entry="printcore.startprint/cancelprint/_sendnext/_listen (sender reused)"))
    for length in ((1, 2) if quick else (1, 2, 3)):
        for lineno in ((0, 7, 42) if quick else (-1, 0, 7, 42, 999, 100000)):
            out.append(Cell(f"framing|len={length}|n={lineno}", _make_framing(length, lineno),
                            budget_s=200 if quick else 900, must_reach=("framed",),
                            entry="printcore._send"))
    for nbytes in ((1, 2, 5, 8) if quick else range(1, 13)):
        out.append(Cell(f"checksum|bytes={nbytes}", _make_checksum(nbytes), budget_s=120,
                        must_reach=("unsat",), entry="printcore._checksum (AST -> z3 bit-vectors)"))
    return out
