"""C18 — device reports are parsed into the readings the caller asks for (dispatch and
first-occurrence rule; tokenisation by the real regex on the report's structure, digits abstracted)."""

import importlib
import re

from ..runner import Cell
from ..driver import Finite, assume
from ..mode import MODE, V, reached, num_eq

PROPERTY_ID = "C18"
FUNCTIONS = [
    "PrintrunWriter._on_device_message (ok / error / report dispatch)", "PrintrunWriter._parse_message",
    "PrintrunWriter._update_param (first-occurrence rule)", "PrintrunWriter.get_parameter", "ParamsDict",
    "VALUE_PATTERN (real regex, applied to the report with sample numbers)",
]
BOUNDS = ("Cell grid: 9 report templates of the four families plus every order of the Marlin position fields with repeated letters, reversed temperature fields, Grbl status with FS first (thorough: 27 more templates; quick: 4 of them) (Marlin position with and without "
          "'Count', Marlin temperature with and without a leading 'ok' and with '@' fields, Grbl "
          "status with MPos / WPos + FS, Grbl probe) x {one report, two reports in a row, report "
          "after an unrelated one}. The report text handed to the writer is the template rendered "
          "with distinct sample decimals; the REAL VALUE_PATTERN tokenises it; every numeric field "
          "is then replaced by a symbolic real before the real _parse_message/_update_param logic "
          "runs (float() of a field returns its symbolic value). Solver over: every reported value "
          "and every earlier reading. Checked through the public receive callback and "
          "get_parameter: each reported letter has the value that appears FIRST in that report; "
          "letters not mentioned keep their earlier reading; look-ups are case-insensitive; 'ok' "
          "lines acknowledge, error/alarm/!! lines store a DeviceError, plain reports do neither. "
          "NOT decided: the regex and float() on arbitrary digit strings (signs, exponents, "
          "malformed numbers) -- the structure is tokenised with well-formed sample decimals only.")
ASSUMPTIONS = [
    "tokenisation does not depend on the digits of well-formed decimals (the real regex is run on "
    "sample numbers and the matched fields are substituted by symbolic values)",
    "float()/map(float, ...) inside printrun_writer are shimmed to return the symbolic value of a field",
]

pw_mod = importlib.import_module("gscrib.writers.printrun_writer")


class Field:
    """A numeric field of a report: behaves like the matched text for split(','), and float()
    (shimmed) returns its symbolic value."""

    def __init__(self, parts):
        self.parts = list(parts)          # list of symbolic values (comma separated group)

    def split(self, sep=","):
        return [Field([p]) for p in self.parts]

    def value(self):
        if len(self.parts) != 1:
            raise ValueError("could not convert string to float")
        return self.parts[0]


def _float_shim(v):
    if isinstance(v, Field):
        return v.value()
    return float(v)


class PatternShim:
    """VALUE_PATTERN.findall: real regex on the sample rendering, numeric fields replaced."""

    def __init__(self, real, sample_to_sym):
        self.real, self.map = real, sample_to_sym

    def findall(self, message):
        out = []
        for key, value in self.real.findall(message):
            parts = []
            for tok in value.split(","):
                # fields of the template become symbolic; literal numbers of the report stay concrete
                parts.append(self.map[tok] if tok in self.map else float(tok))
            out.append((key, Field(parts)))
        return out


TEMPLATES = {
    # name: (text with {i} fields, expected {letter: field index})
    "marlin-pos": ("X:{0} Y:{1} Z:{2} E:{3} Count X:{4} Y:{5} Z:{6}", {"X": 0, "Y": 1, "Z": 2, "E": 3}),
    "marlin-pos-short": ("X:{0} Y:{1} Z:{2} E:{3}", {"X": 0, "Y": 1, "Z": 2, "E": 3}),
    "marlin-temp": ("T:{0} /{1} B:{2} /{3}", {"T": 0, "B": 2}),
    "marlin-temp-ok": ("ok T:{0} /{1} B:{2} /{3}", {"T": 0, "B": 2}),
    "marlin-temp-at": ("T:{0} /{1} B:{2} /{3} @:0 B@:0", {"T": 0, "B": 2}),
    "marlin-temp-multi": ("ok T:{0} /{1} B:{2} /{3} T0:{4} /{5} T1:{6} /{5}", {"T": 0, "B": 2}),
    "grbl-status": ("<Idle|MPos:{0},{1},{2}|FS:{3},{4}|WCO:0.000,0.000,0.000>",
                    {"X": 0, "Y": 1, "Z": 2, "F": 3, "S": 4}),
    "grbl-status-wpos": ("<Run|WPos:{0},{1},{2}|FS:{3},{4}>", {"X": 0, "Y": 1, "Z": 2, "F": 3, "S": 4}),
    "grbl-probe": ("[PRB:{0},{1},{2}:1]", {"X": 0, "Y": 1, "Z": 2}),
}
def _permuted_templates():
    """Marlin position / temperature reports with the fields in every order, and with a letter
    repeated later in the line (the FIRST value must win)."""
    import itertools
    out = {}
    letters = ["X", "Y", "Z", "E"]
    for perm in itertools.permutations(range(4)):
        name = "marlin-pos-order-" + "".join(letters[i] for i in perm)
        text = " ".join(f"{letters[i]}:{{{k}}}" for k, i in enumerate(perm))
        # repeat the first two letters at the end with other values
        text += f" Count {letters[perm[0]]}:{{4}} {letters[perm[1]]}:{{5}}"
        out[name] = (text, {letters[i]: k for k, i in enumerate(perm)})
    out["marlin-temp-BT"] = ("B:{0} /{1} T:{2} /{3}", {"B": 0, "T": 2})
    out["marlin-temp-ok-BT"] = ("ok B:{0} /{1} T:{2} /{3} @:64 B@:127", {"B": 0, "T": 2})
    out["grbl-status-FS-first"] = ("<Hold:0|FS:{3},{4}|MPos:{0},{1},{2}|Ov:100,100,100>",
                                   {"X": 0, "Y": 1, "Z": 2, "F": 3, "S": 4})
    return out


SAMPLES = ["101.25", "-102.5", "103.75", "104.125", "105.5", "-106.25", "107.0"]
SAMPLES2 = ["-201.5", "202.25", "-203.125", "204.75", "-205.5", "206.25", "207.5"]   # second report


def _make(name, scenario):
    text, expected = TEMPLATES[name]

    def h(v0: Finite, v1: Finite, v2: Finite, v3: Finite, v4: Finite, v5: Finite, v6: Finite,
          u0: Finite, u1: Finite, u2: Finite, u3: Finite, old_x: Finite, old_t: Finite, old_q: Finite):
        vals = [v0, v1, v2, v3, v4, v5, v6]
        vals2 = [u0, u1, u2, u3, v4, v5, v6]      # a second report with other values
        w = pw_mod.PrintrunWriter("serial", "host", "port", 250000)
        w._current_params["X"] = old_x
        w._current_params["T"] = old_t
        w._current_params["Q"] = old_q
        old_pat, had_float = pw_mod.VALUE_PATTERN, hasattr(pw_mod, "float")
        if MODE.symbolic:
            message = text.format(*SAMPLES)
            message2 = text.format(*SAMPLES2)
            table = dict(zip(SAMPLES, vals))
            table.update(zip(SAMPLES2, vals2))
            pw_mod.VALUE_PATTERN = PatternShim(old_pat, table)
            pw_mod.float = _float_shim
        else:
            # concrete replay: the report carries the solver's values as plain decimals
            r1 = [f"{v:.6f}" for v in vals]
            r2 = [f"{v:.6f}" for v in vals2]
            message, message2 = text.format(*r1), text.format(*r2)
            vals, vals2 = [float(x) for x in r1], [float(x) for x in r2]
            old_x, old_t, old_q = round(old_x, 6), round(old_t, 6), round(old_q, 6)
            w._current_params["X"], w._current_params["T"], w._current_params["Q"] = old_x, old_t, old_q
        try:
            if scenario == "after-unrelated":
                w._on_device_message("echo:busy: processing")
                w._on_device_message("[MSG:Pgm End]")
            w._ack_event.clear()
            w._device_error = None
            w._on_device_message(message + "\n")
            if scenario == "twice":
                # the same kind of report again, with other values: the new ones must win
                w._ack_event.clear()
                w._on_device_message(message2)
                vals, message = vals2, message2
        except Exception as e:  # noqa: BLE001
            msg = f"{type(e).__name__}: {e}"
            return V("receive-callback-raised", msg)
        finally:
            pw_mod.VALUE_PATTERN = old_pat
            if MODE.symbolic and not had_float:
                del pw_mod.float
        if w._device_error is not None:
            err = w._device_error
            return V("report-stored-an-error", lambda: f"{message!r}: {err!r}")
        ctx = lambda: f"report {message!r}"  # noqa: E731
        for letter, idx in expected.items():
            for key in (letter, letter.lower()):
                got = w.get_parameter(key)
                if got is None or not num_eq(got, vals[idx]):
                    return V("reading-is-not-the-first-value-in-the-report",
                             lambda: f"get_parameter({key!r}) = {got!r}, the report says {letter}:"
                                     f"{vals[idx]!r} first; {ctx()}")
        olds = {"X": old_x, "T": old_t, "Q": old_q}
        if not MODE.symbolic:
            olds = {"X": old_x, "T": old_t, "Q": old_q}
        for letter, old in olds.items():
            if letter in expected:
                continue
            got = w.get_parameter(letter)
            if got is None or not num_eq(got, old):
                return V("earlier-reading-lost",
                         lambda: f"{letter} was {old!r}, now {got!r} after {ctx()}")
        is_ok = message.lower().startswith("ok")
        if w._ack_event.is_set() != is_ok:
            return V("acknowledgement-flag-wrong",
                     lambda: f"ack set={w._ack_event.is_set()} for {ctx()}")
        reached("parsed")
        return None
    return h


SAMPLES3 = ["301.125", "-302.75", "303.5", "-304.25", "305.625", "306.5", "-307.25"]
SEQ_NAMES = ["marlin-pos", "marlin-temp", "marlin-temp-ok", "grbl-status", "grbl-probe"]


def _make_seq(names, again_first):
    """A SEQUENCE of reports of different families on one writer (again_first: the first report
    arrives once more, verbatim, at the end): after every report each letter it mentions reads the
    first value given there, every other letter keeps what earlier reports (or the initial
    readings) said."""
    sets = [SAMPLES, SAMPLES2, SAMPLES3]

    def core(values, old_x, old_t, old_q):
        w = pw_mod.PrintrunWriter("serial", "host", "port", 250000)
        old_pat, had_float = pw_mod.VALUE_PATTERN, hasattr(pw_mod, "float")
        plan = [(n, k) for k, n in enumerate(names)]
        if again_first:
            plan.append((names[0], 0))
        messages, vals = [], []
        if MODE.symbolic:
            table = {}
            for k in range(len(names)):
                table.update(zip(sets[k], values[k]))
            for n, k in plan:
                messages.append(TEMPLATES[n][0].format(*sets[k]))
                vals.append(values[k])
            pw_mod.VALUE_PATTERN = PatternShim(old_pat, table)
            pw_mod.float = _float_shim
        else:
            rendered = [[f"{v:.6f}" for v in vs] for vs in values]
            for n, k in plan:
                messages.append(TEMPLATES[n][0].format(*rendered[k]))
                vals.append([float(x) for x in rendered[k]])
            old_x, old_t, old_q = round(old_x, 6), round(old_t, 6), round(old_q, 6)
        w._current_params["X"], w._current_params["T"], w._current_params["Q"] = old_x, old_t, old_q
        model = {"X": old_x, "T": old_t, "Q": old_q}
        try:
            for step, ((n, k), message, vs) in enumerate(zip(plan, messages, vals)):
                w._device_error = None
                try:
                    w._on_device_message(message + "\n")
                except Exception as e:  # noqa: BLE001
                    msg = f"{type(e).__name__}: {e}"
                    return V("receive-callback-raised", msg)
                if w._device_error is not None:
                    err = w._device_error
                    return V("report-stored-an-error", lambda: f"{message!r}: {err!r}")
                for letter, idx in TEMPLATES[n][1].items():
                    model[letter] = vs[idx]
                ctx = lambda: f"after reports {messages[:step + 1]!r}"  # noqa: E731
                for letter, want in model.items():
                    got = w.get_parameter(letter)
                    if got is None or not num_eq(got, want):
                        kind = ("sequence-reading-is-not-the-first-value-in-the-last-report"
                                if letter in TEMPLATES[n][1] else "sequence-earlier-reading-lost")
                        return V(kind, lambda: f"get_parameter({letter!r}) = {got!r}, expected {want!r}; {ctx()}")
        finally:
            pw_mod.VALUE_PATTERN = old_pat
            if MODE.symbolic and not had_float:
                del pw_mod.float
        reached("parsed")
        return None

    n = len(names)
    params = [f"v{k}_{i}" for k in range(n) for i in range(7)] + ["old_x", "old_t", "old_q"]
    src = (f"def h({', '.join(params)}):\n"
           f"    return core([{', '.join('[' + ', '.join(f'v{k}_{i}' for i in range(7)) + ']' for k in range(n))}], "
           f"old_x, old_t, old_q)\n")
    ns = {"core": core}
    exec(src, ns)
    h = ns["h"]
    h.__annotations__ = {p: Finite for p in params}
    return h


def _make_dispatch(kind):
    def h(flag: bool):
        w = pw_mod.PrintrunWriter("serial", "host", "port", 250000)
        w._current_params["X"] = 5.0
        lines = {"ok": ["ok", "OK", "ok N12 P15 B3", " ok\n"],
                 "error": ["error:9", "Error: checksum mismatch", "ALARM:1", "!! printer halted", "alarm:2\n"],
                 "other": ["echo:busy: processing", "[MSG:Pgm End]", "Grbl 1.1h ['$' for help]", "start", ""]}[kind]
        for line in lines:
            w._ack_event.clear()
            w._device_error = None
            w._on_device_message(line)
            acked, err = w._ack_event.is_set(), w._device_error
            if kind == "ok" and (not acked or err is not None):
                return V("ok-line-not-acknowledged", lambda: f"{line!r}: ack={acked} err={err!r}")
            if kind == "error" and (err is None or type(err).__name__ != "DeviceError" or not acked):
                return V("error-line-not-surfaced", lambda: f"{line!r}: ack={acked} err={err!r}")
            if kind == "other" and (acked or err is not None):
                return V("plain-line-treated-as-ack-or-error", lambda: f"{line!r}: ack={acked} err={err!r}")
            if w.get_parameter("x") != 5.0:
                return V("earlier-reading-lost", lambda: f"after {line!r}")
        reached("parsed")
        return None
    return h


def _make_two_writers():
    """Readings belong to one writer: a report delivered to one connection must not show up in,
    or overwrite, the readings of another writer object."""
    def h(v0: Finite, v1: Finite, v2: Finite, v3: Finite, u0: Finite, u1: Finite, u2: Finite, u3: Finite):
        a = pw_mod.PrintrunWriter("serial", "host", "portA", 250000)
        b = pw_mod.PrintrunWriter("socket", "host", "8000", 0)
        text = TEMPLATES["marlin-pos-short"][0]
        ma, mb = text.format(*SAMPLES), text.format(*SAMPLES2)
        old_pat, had_float = pw_mod.VALUE_PATTERN, hasattr(pw_mod, "float")
        va, vb = [v0, v1, v2, v3], [u0, u1, u2, u3]
        if MODE.symbolic:
            table = dict(zip(SAMPLES, va))
            table.update(zip(SAMPLES2, vb))
            pw_mod.VALUE_PATTERN = PatternShim(old_pat, table)
            pw_mod.float = _float_shim
        else:
            va = [float(s) for s in SAMPLES[:4]]
            vb = [float(s) for s in SAMPLES2[:4]]
        try:
            a._on_device_message(ma)
            if b.get_parameter("X") is not None:
                got = b.get_parameter("X")
                return V("reading-leaks-into-another-writer",
                         lambda: f"a fresh second writer reports X={got!r} after the first got {ma!r}")
            b._on_device_message(mb)
        finally:
            pw_mod.VALUE_PATTERN = old_pat
            if MODE.symbolic and not had_float:
                del pw_mod.float
        for i, letter in enumerate("XYZE"):
            ga, gb = a.get_parameter(letter), b.get_parameter(letter)
            if ga is None or not num_eq(ga, va[i]) or gb is None or not num_eq(gb, vb[i]):
                return V("reading-overwritten-by-another-writers-report",
                         lambda: f"{letter}: writer A has {ga!r} (its report said {va[i]!r}), "
                                 f"writer B has {gb!r} (its report said {vb[i]!r})")
        reached("parsed")
        return None
    return h


def cells(tier):
    out = []
    out.append(Cell("two-writers", _make_two_writers(), budget_s=120, must_reach=("parsed",),
                    entry="PrintrunWriter (per-instance readings)"))
    extra = _permuted_templates()
    TEMPLATES.update(extra)
    for name in TEMPLATES:
        if name in extra and tier == "quick" and name not in (
                "marlin-pos-order-ZYXE", "marlin-pos-order-EXYZ", "marlin-temp-ok-BT",
                "grbl-status-FS-first"):
            continue
        for scenario in ("once", "twice", "after-unrelated"):
            if scenario != "once" and name in extra:
                continue
            if tier == "quick" and scenario != "once" and name not in ("marlin-pos", "marlin-temp-ok",
                                                                       "grbl-status"):
                continue
            out.append(Cell(f"report|{name}|{scenario}", _make(name, scenario),
                            budget_s=120 if tier == "quick" else 400, must_reach=("parsed",),
                            entry="PrintrunWriter._on_device_message"))
    import itertools
    seqs = [(s_, False) for s_ in itertools.product(SEQ_NAMES, repeat=2)]
    seqs += [(s_, True) for s_ in itertools.product(SEQ_NAMES, repeat=2) if s_[0] != s_[1]]
    if tier != "quick":
        seqs += [(s_, False) for s_ in itertools.product(SEQ_NAMES, repeat=3)]
    for s_, again in seqs:
        out.append(Cell("sequence|" + ",".join(s_) + ("|first-again" if again else ""), _make_seq(s_, again),
                        budget_s=120 if tier == "quick" else 400, must_reach=("parsed",),
                        entry="PrintrunWriter._on_device_message (sequence of reports)"))
    for kind in ("ok", "error", "other"):
        out.append(Cell(f"dispatch|{kind}", _make_dispatch(kind), budget_s=60, must_reach=("parsed",),
                        entry="PrintrunWriter._on_device_message", note="concrete lines, enumerated"))
    return out
