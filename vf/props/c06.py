"""C06 — the tool and coolant can always be switched off."""

from ..runner import Cell
from ..driver import Finite, FixedStr, assume
from .common import *  # noqa: F401,F403

PROPERTY_ID = "C06"
FUNCTIONS = [
    "GCodeBuilder.tool_off", "GCodeBuilder.power_off", "GCodeBuilder.coolant_off",
    "GCodeBuilder.emergency_halt", "GCodeBuilder.comment", "GCodeBuilder.halt",
    "GCodeBuilder.write", "GCodeCore.write", "GState._set_spin_mode",
    "GState._set_power_mode", "GState._set_coolant_mode", "GState._set_halt_mode",
    "GState._set_tool_power", "GState._validate_tool_power", "BoundManager.validate",
    "DefaultFormatter.command/comment/line",
]
BOUNDS = ("Cell grid: shutdown call {tool_off, power_off, coolant_off, emergency_halt(reset=False/"
          "True)} x tool state {off, spin cw/ccw, power constant/dynamic} x coolant {off, mist, "
          "flood} x bounds table {none, tool-power only, all scalar bounds} x the OTHER start API's mode "
          "left recorded by an earlier on/off through it {no, yes} x how the pre-state is reached "
          "{installed directly, through public calls (true history)}. Solver over: tool "
          "power p>=0, feed rate, previous halt mode flag, every bound (min<max, any reals incl. "
          "ranges excluding 0). Extra cells: emergency_halt with a SYMBOLIC message of 1-3 code "
          "points (any Unicode) must still give M05, M09, comment, M00|M30.")
ASSUMPTIONS = [
    "pre-state tool power is finite and >= 0 (states left behind by a *rejected* call are C05's "
    "subject, not used as pre-states here)",
    "emergency message restricted to printable text without line breaks or ';' (C09 covers text)",
]

TOOLS = [None, ("spin", "cw"), ("spin", "ccw"), ("power", "constant"), ("power", "dynamic")]
COOLANTS = [None, "mist", "flood"]
SCALAR_BOUNDS = ["bed-temperature", "chamber-temperature", "hotend-temperature", "feed-rate",
                 "tool-power"]


def _make(entry, tool, coolant, bmode, reset=False, stale=None):
    def h(p: Finite, lo: Finite, hi: Finite, halted: bool):
        assume(p >= 0)
        assume(lo < hi)
        feed, lo2, hi2 = 100.0, 20.0, 5000.0
        bounds = {}
        if bmode in ("power", "all"):
            bounds["tool-power"] = (lo, hi)
        if bmode == "all":
            for n in SCALAR_BOUNDS:
                if n != "tool-power":
                    bounds[n] = (lo2, hi2)
            bounds["tool-number"] = (1, 9)
        halt = None
        if halted and tool is None and coolant is None:
            halt = "pause"
        extra = {}
        if stale == "spin":          # tool_on(ccw) ... power_off() earlier: the spin mode is still recorded
            extra["stale_spin"] = "ccw"
        elif stale == "power":       # power_on(dynamic) ... tool_off() earlier
            extra["stale_power"] = "dynamic"
        pre = mkpre(tool=tool, coolant=coolant, power=p if tool else 0, feed=feed,
                    bounds=bounds, halt=halt, pos=(1.0, 2.0, 3.0), **extra)
        g, rec = prepare(pre)
        if entry == "tool_off":
            e = attempt(g.tool_off)
            want = [["M5"]]
        elif entry == "power_off":
            e = attempt(g.power_off)
            want = [["M5"]]
        elif entry == "coolant_off":
            e = attempt(g.coolant_off)
            want = [["M9"]]
        else:
            e = attempt(g.emergency_halt, "stop", reset)
            want = [["M5"], ["M9"], [], ["M30" if reset else "M0"]]
        if e is not None:
            reached("raised")
            return V(f"{entry}-raises-{exc_name(e)}",
                     lambda: f"{entry}() raised {exc_name(e)}: {e} (tool={tool}, coolant={coolant}, "
                     f"bounds={bmode}, power={p!r}, tool-power bound=({lo!r},{hi!r}))")
        try:
            got = blocks_of(rec)
        except Malformed as m:
            return V(f"{entry}-malformed-output", str(m))
        if got != want:
            return V(f"{entry}-wrong-sequence", lambda: f"emitted {got}, expected {want}")
        s = g.state
        if entry in ("tool_off", "power_off", "emergency_halt") and s.is_tool_active:
            return V(f"{entry}-tool-still-active", "state reports the tool active afterwards")
        if entry in ("coolant_off", "emergency_halt") and s.is_coolant_active:
            return V(f"{entry}-coolant-still-active", "state reports coolant active afterwards")
        if entry == "tool_off" and coolant is not None and not s.is_coolant_active:
            return V("tool_off-changed-coolant", "coolant flag changed")
        reached("ok")
        return None

    return h


def _make_message(tool, coolant, reset, length):
    """emergency_halt with a symbolic message: the sequence M05, M09, comment, M00|M30 must
    survive any text (the text itself is C09's subject; here it must not disturb the shutdown)."""
    def h(msg, p: Finite, lo: Finite, hi: Finite):
        assume(p >= 0)
        assume(lo < hi)
        pre = mkpre(tool=tool, coolant=coolant, power=p if tool else 0,
                    bounds={"tool-power": (lo, hi)}, pos=(1.0, 2.0, 3.0))
        g, rec = prepare(pre)
        e = attempt(g.emergency_halt, msg, reset)
        if e is not None:
            m = f"{exc_name(e)}: {e}"
            return V("emergency_halt-raises-" + exc_name(e), lambda: f"{m} for message {msg!r}")
        text = rec.text()
        from .c09 import lex       # independent lexer: a line ends at LF, CR or CRLF
        heads = lex(text, ";")
        if not isinstance(heads, list):
            return V("emergency_halt-wrong-sequence", lambda: f"{heads!r}: output {text!r} for message {msg!r}")
        want = [["M05"], ["M09"], [], ["M30" if reset else "M00"]]
        if heads != want:
            return V("emergency_halt-wrong-sequence",
                     lambda: f"executable words {heads!r}, expected {want!r}; output {text!r}")
        if g.state.is_tool_active or g.state.is_coolant_active:
            return V("emergency_halt-tool-still-active", "flags still set")
        reached("ok")
        return None
    h.__annotations__ = {"msg": FixedStr(length), "p": Finite, "lo": Finite, "hi": Finite}
    return h


def cells(tier):
    out = []
    for reset in (False, True):
        for length in ((1, 2) if tier == "quick" else (1, 2, 3)):
            for tool, coolant in ((None, None), (("spin", "cw"), "flood"), (("power", "dynamic"), "mist")):
                out.append(Cell(f"emergency_halt-message|len={length}|reset={reset}|tool="
                                f"{tool[0] + '-' + tool[1] if tool else 'off'}",
                                _make_message(tool, coolant, reset, length),
                                budget_s=150 if tier == "quick" else 600, per_path_s=20,
                                must_reach=("ok",), entry="GCodeBuilder.emergency_halt"))
    entries = [("tool_off", False), ("power_off", False), ("coolant_off", False),
               ("emergency_halt", False), ("emergency_halt", True)]
    for entry, reset in entries:
        for tool in TOOLS:
            for coolant in COOLANTS:
                for bmode in ("none", "power", "all"):
                    if tier == "quick" and bmode == "all" and entry != "emergency_halt":
                        continue
                    name = (f"{entry}{'_reset' if reset else ''}|tool={tool[0] + '-' + tool[1] if tool else 'off'}"
                            f"|coolant={coolant or 'off'}|bounds={bmode}")
                    out.append(Cell(name=name, fn=_make(entry, tool, coolant, bmode, reset),
                                    budget_s=60 if tier == "quick" else 240,
                                    must_reach=(), entry=f"GCodeBuilder.{entry}"))
                    # the other API's mode left over from an earlier on/off through it
                    stale = "power" if (tool is None or tool[0] == "spin") else "spin"
                    if bmode != "all" or tier != "quick":
                        out.append(Cell(name=name + f"|stale-{stale}-mode",
                                        fn=_make(entry, tool, coolant, bmode, reset, stale),
                                        budget_s=60 if tier == "quick" else 240,
                                        must_reach=(), entry=f"GCodeBuilder.{entry}"))
                        if tool is None:
                            out.append(Cell(name=name + "|stale-spin-mode",
                                            fn=_make(entry, tool, coolant, bmode, reset, "spin"),
                                            budget_s=60 if tier == "quick" else 240,
                                            must_reach=(), entry=f"GCodeBuilder.{entry}"))
    out += history_variants([c for c in out if not c.name.startswith(('history', 'real-', 'two-'))])
    return out
