"""C17 — socket input is split into lines independently of packet boundaries."""

import itertools

from ..runner import Cell
from ..driver import FixedBytes, assume
from ..mode import MODE, V, reached
from gscrib.printrun.device import Device, READ_EMPTY, READ_EOF

PROPERTY_ID = "C17"
FUNCTIONS = ["Device.readline", "Device._readline_socket", "Device._readline_buf"]
BOUNDS = ("Inductive step for the buffer invariant (every buffered chunk except the last is "
          "newline-free): ONE readline() from an arbitrary buffer (0-2 chunks of 1-3 bytes) "
          "followed by a scripted socket of up to 3 reads, each a data chunk of fixed length "
          "(quick 1-3, thorough 1-4 bytes; plus full-size 256-byte chunks), 'no data yet' with "
          "either select() answer (then data / no data / end-of-stream), or end-of-stream. The "
          "script shape and chunk lengths are the cell grid; z3 decides over all byte contents. "
          "Calls that would need more reads than the script holds are outside the cell. Chunk "
          "sizes 5..255 follow by the induction only, not by direct exploration.")
ASSUMPTIONS = [
    "the socket file and selector are scripted stubs (read(n) returns the next scripted item, "
    "select() the next scripted answer); OSError paths are not explored",
    "256-byte chunks: first two and last two bytes symbolic, 252 concrete filler bytes between",
]

AGAIN = None
EOF_MARK = b""


class ScriptExhausted(Exception):
    pass


class SockFile:
    def __init__(self, items):
        self.items = list(items)
        self.delivered = []
        self.sizes = []
        self.last = "nothing-read"

    def read(self, n):
        if not self.items:
            raise ScriptExhausted()
        self.sizes.append(n)
        item = self.items.pop(0)
        self.last = item
        if item is not AGAIN and len(item) > 0:
            self.delivered.append(item)
        return item


class Selector:
    def __init__(self, answers):
        self.answers = list(answers)

    def select(self, timeout=None):
        if not self.answers:
            raise ScriptExhausted()
        return [object()] if self.answers.pop(0) else []


def _count(data, byte=10):
    n = 0
    for b in data:
        if b == byte:
            n += 1
    return n


def _join(chunks):
    out = b""
    for c in chunks:
        out = out + c
    return out


def run_script(buf_chunks, events, data):
    """events: list of event names; data: list of byte chunks consumed in order."""
    it = iter(data)
    reads, answers = [], []
    for ev in events:
        if ev == "data":
            reads.append(next(it))
        elif ev == "again-data":
            reads += [AGAIN, next(it)]
            answers.append(True)
        elif ev == "again":
            reads.append(AGAIN)
            answers.append(False)
        elif ev == "again-again":
            reads += [AGAIN, AGAIN]
            answers.append(True)
        elif ev == "eof":
            reads.append(EOF_MARK)
        elif ev == "again-eof":
            reads += [AGAIN, EOF_MARK]
            answers.append(True)
    d = Device()
    d._type = "socket"
    d._device = object()
    d._hostname, d._port_number = "h", 1
    d._is_connected = True
    d._socketfile = SockFile(reads)
    d._selector = Selector(answers)
    d._read_buffer = list(buf_chunks)
    return d


def _make(buf_lens, events, data_lens):
    nbuf, ndata = len(buf_lens), len(data_lens)

    def core(bufs, data):
        # full-size chunks: 2 symbolic bytes, 252 filler bytes, 2 symbolic bytes
        data = [c[:2] + b"x" * 252 + c[2:] if n == 256 else c for c, n in zip(data, data_lens)]
        # pre-state invariant: every chunk but the last is newline-free
        for c in bufs[:-1]:
            assume(c.find(b"\n") < 0)
        d = run_script(bufs, events, data)
        old = _join(bufs)
        try:
            ret = d.readline()
        except ScriptExhausted:
            assume(False)
        except Exception as e:  # noqa: BLE001
            msg = f"{type(e).__name__}: {e}"
            return V("readline-unexpected-exception", msg)
        sf = d._socketfile
        consumed = _join(sf.delivered)
        stream = old + consumed
        left = _join(d._read_buffer)
        saw_eof = sf.last is not AGAIN and not isinstance(sf.last, str) and len(sf.last) == 0
        saw_again_end = sf.last is AGAIN
        ctx = lambda: (f"buffer={bufs!r} events={events} data={data!r} -> returned {ret!r}, "  # noqa: E731
                       f"buffer left {d._read_buffer!r}")
        if ret is READ_EOF:
            if not saw_eof:
                return V("eof-reported-without-end-of-stream", ctx)
            if len(stream) != 0:
                return V("bytes-lost-at-end-of-stream", ctx)
            reached("eof")
            return None
        if ret + left != stream:
            return V("bytes-lost-duplicated-or-reordered", ctx)
        nl = _count(ret)
        if saw_eof:
            if len(left) != 0:
                return V("tail-not-delivered-at-end-of-stream", ctx)
            if len(ret) == 0:
                return V("empty-line-instead-of-eof", ctx)
            reached("tail")
        elif len(ret) > 0:
            if ret[len(ret) - 1] != 10 or nl != 1:
                return V("line-not-cut-after-newline", ctx)
            reached("line")
        else:
            if _count(stream) != 0:
                return V("complete-line-withheld", ctx)
            if not saw_again_end:
                return V("empty-result-without-timeout", ctx)
            reached("empty")
        # invariant afterwards
        for c in d._read_buffer[:-1]:
            if c.find(b"\n") >= 0:
                return V("buffer-invariant-broken", ctx)
        return None

    # generate a harness with exactly nbuf + ndata FixedBytes parameters
    params = [f"b{i}" for i in range(nbuf)] + [f"d{i}" for i in range(ndata)]
    lens = list(buf_lens) + list(data_lens)
    src = (f"def h({', '.join(params)}):\n"
           f"    return core([{', '.join(params[:nbuf])}], [{', '.join(params[nbuf:])}])\n")
    ns = {"core": core}
    exec(src, ns)
    h = ns["h"]
    h.__annotations__ = {p: FixedBytes(4 if n == 256 else n) for p, n in zip(params, lens)}
    return h


DATA_EVENTS = ("data", "again-data")
TERMINALS = ("again", "again-again", "eof", "again-eof")


def _scripts(max_len, lens):
    """All scripts: up to max_len-1 data events followed by one more event (data or terminal)."""
    out = []
    for k in range(0, max_len):
        for prefix in itertools.product(DATA_EVENTS, repeat=k):
            for last in DATA_EVENTS + TERMINALS:
                events = list(prefix) + [last]
                ndata = sum(1 for e in events if e in DATA_EVENTS)
                for dl in itertools.product(lens, repeat=ndata):
                    out.append((events, dl))
    return out


def cells(tier):
    quick = tier == "quick"
    lens = (1, 2, 3) if quick else (1, 2, 3, 4)
    bufs = [(), (2,), (1, 2), (3, 1)] if quick else \
        [()] + [(a,) for a in (1, 2, 3)] + [(a, b) for a in (1, 2, 3) for b in (1, 2, 3)]
    out = []
    scripts = _scripts(3, lens)
    if quick:
        # quick: full depth-2 grid, depth-3 only with 'data' prefixes
        scripts = [s for s in scripts if len(s[0]) < 3 or all(e == "data" for e in s[0][:2])]
    for buf_lens in bufs:
        for events, dl in scripts:
            name = (f"buf={'+'.join(map(str, buf_lens)) or '0'}|" +
                    ",".join(events) + "|len=" + ("+".join(map(str, dl)) or "-"))
            out.append(Cell(name, _make(buf_lens, events, dl), budget_s=60 if quick else 240,
                            entry="Device.readline (socket)"))
    # full-size chunks (the reader asks for 256 bytes at a time)
    for buf_lens in [(), (2,)]:
        for events, dl in [(["data", "data"], (256, 2)), (["data", "eof"], (256,)),
                           (["data", "again"], (256,)), (["data", "data", "eof"], (256, 1))]:
            name = (f"buf={'+'.join(map(str, buf_lens)) or '0'}|" + ",".join(events) +
                    "|len=" + "+".join(map(str, dl)))
            out.append(Cell(name, _make(buf_lens, events, dl), budget_s=120 if quick else 400,
                            entry="Device.readline (socket)", note="full 256-byte read"))
    return out
