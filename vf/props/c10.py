"""C10 — interpolated paths: the geometry handed to the sampler (pre-sampling part only)."""

import math

from ..runner import Cell
from ..driver import Finite, assume
from .common import *  # noqa: F401,F403
from .tracer_capture import (capture_forward, capture_arc_like, capture_spline, tracer_np,
                             capture_arc_full, ArcRecorder)
from .c01 import frame_condition

PROPERTY_ID = "C10"
FUNCTIONS = [
    "PathTracer.thread", "PathTracer.circle", "PathTracer.spline (control points)",
    "PathTracer.arc_radius (centre selection)", "PathTracer.spiral", "PathTracer.polyline",
    "PathTracer.arc (geometry up to the radius check)", "PathTracer.helix (geometry up to the radii)",
    "Direction.enforce", "Direction.full_turn", "GCodeCore.to_absolute/to_absolute_list/to_distance_mode",
]
BOUNDS = ("ONLY the plain-Python geometry handed to the sampler is decided; vertices, radius along "
          "the path, sweep, monotonicity and spline proximity are NOT examined (numpy/scipy). Cell "
          "grid: shape {thread, circle, spiral, polyline(1-3 points), arc, helix} x distance mode x "
          "2D/3D target. Solver over: start position, target, centre, pitch (all reals in "
          "[-1000,1000], pitch in (0,1000]; for 3D threads pitch >= 0.5 and |dz| <= 6, i.e. up to 12 turns). Checked: thread hands helix a centre equidistant from "
          "start and target in XY and max(1, floor(|dz|/pitch)) turns; circle hands arc a target "
          "equal to the start; spiral hands helix the start as centre; arc/helix compute centre = "
          "start + given offset and the absolute target; arc's Z travel is target z - start z (0 for "
          "2D targets), its path length hypot(radius x sweep, Z travel), extra parameters forwarded "
          "(numpy hypot/arctan2 return recognisable dummies); polyline visits exactly the given points "
          "(one G1 each, machine positions compared); spline fits through the start followed by "
          "every given point in order with only consecutive duplicates removed (2-3 symbolic "
          "points); arc_radius on a 3-4-5 configuration scaled by a symbolic k (chord along an axis, "
          "numpy sqrt/hypot stubbed with the values the configuration implies, the sqrt argument "
          "checked) hands arc() a centre at distance |r| on the side that gives the minor arc for "
          "r>0 and the major arc for r<0, for both directions. Direction.enforce: for every angle in "
          "(-2pi, 2pi) the result has the sign of the direction, |result| <= 2pi and differs from "
          "the input by 0 or one full turn. Plus CONCRETE (not solver-decided) history cells: a second circle / half arc / quarter arc, either direction, G90 or G91, on a tracer that has already traced a circle or arc in either direction or has rejected a circle (zero radius; leaving the axes box): the emitted polyline keeps the radius, is monotone in the selected direction, sweeps the expected angle and ends on target.")
ASSUMPTIONS = [
    "the sampler entry points (helix/arc of the tracer instance, numpy hypot inside arc/helix) are "
    "replaced by recorders; everything after the recorded call is outside this check",
    "identity transform, no bounds",
]

BOX = 1000.0


def _box(*vals):
    for v in vals:
        assume(v >= -BOX)
        assume(v <= BOX)


def _abs_target(o, args, rel):
    return tuple((o[i] + a) if rel else a for i, a in enumerate(args))


def _make_thread(rel, dims):
    def h(ox: Finite, oy: Finite, oz: Finite, tx: Finite, ty: Finite, tz: Finite, pitch: Finite):
        _box(ox, oy, oz, tx, ty, tz)
        assume(pitch > 0)
        assume(pitch <= BOX)
        if dims == 3:
            # int() of a symbolic quotient is explored value by value: bound the turn count
            assume(pitch >= 0.5)
            dzb = (tz if rel else tz - oz)
            assume(dzb <= 6)
            assume(dzb >= -6)
        o = (ox, oy, oz)
        pre = mkpre(pos=o, relative=rel)
        g, rec = prepare(pre)
        target = (tx, ty, tz)[:dims]
        calls = capture_forward(g, "helix", lambda g: g.trace.thread(target, pitch))
        if len(calls) != 1:
            return V("thread-did-not-call-helix-once", lambda: f"{calls!r}")
        (a, kw) = calls[0]
        h_target, h_center, h_turns = a[0], a[1], a[2] if len(a) > 2 else kw.get("turns", 1)
        t_abs = tuple((o[i] + v) if rel else v for i, v in enumerate(target))
        t_abs = t_abs + tuple(o[len(t_abs):])
        c = (ox + (h_center[0] or 0), oy + (h_center[1] or 0))
        d_start = (c[0] - ox) * (c[0] - ox) + (c[1] - oy) * (c[1] - oy)
        d_target = (c[0] - t_abs[0]) * (c[0] - t_abs[0]) + (c[1] - t_abs[1]) * (c[1] - t_abs[1])
        diff = d_start - d_target
        if diff > 1e-6 or -diff > 1e-6:
            return V("thread-centre-not-equidistant",
                     lambda: f"start {o!r}, target {t_abs!r}: centre {c!r} is at squared distance "
                             f"{d_start!r} from the start and {d_target!r} from the target")
        if tuple(h_target) != tuple(target):
            return V("thread-target-not-forwarded", lambda: f"{h_target!r} vs {target!r}")
        dz = t_abs[2] - oz
        if dz < 0:
            dz = -dz
        want = dz / pitch
        # turns == max(1, floor(|dz| / pitch))
        if want < 1:
            if h_turns != 1:
                return V("thread-turn-count-wrong", lambda: f"|dz|={dz!r} pitch={pitch!r} turns={h_turns!r}")
        else:
            if not (h_turns <= want and want < h_turns + 1):
                return V("thread-turn-count-wrong", lambda: f"|dz|={dz!r} pitch={pitch!r} turns={h_turns!r}")
        reached("captured")
        return None
    return h


def _make_circle(rel):
    def h(ox: Finite, oy: Finite, oz: Finite, cx: Finite, cy: Finite):
        _box(ox, oy, oz, cx, cy)
        o = (ox, oy, oz)
        pre = mkpre(pos=o, relative=rel)
        g, rec = prepare(pre)
        calls = capture_forward(g, "arc", lambda g: g.trace.circle((cx, cy)))
        if len(calls) != 1:
            return V("circle-did-not-call-arc-once", lambda: f"{calls!r}")
        a, kw = calls[0]
        a_target, a_center = a[0], a[1]
        t_abs = g.to_absolute(a_target)
        for i in range(3):
            if not num_eq(t_abs[i], o[i]):
                return V("circle-does-not-end-where-it-starts",
                         lambda: f"start {o!r}; arc target {tuple(a_target)!r} means absolute "
                                 f"{tuple(t_abs)!r} in {'relative' if rel else 'absolute'} mode")
        if not (num_eq(a_center[0], cx) and num_eq(a_center[1], cy)):
            return V("circle-centre-not-forwarded", lambda: f"{a_center!r}")
        reached("captured")
        return None
    return h


def _make_spiral(rel, dims):
    def h(ox: Finite, oy: Finite, oz: Finite, tx: Finite, ty: Finite, tz: Finite, turns: int):
        _box(ox, oy, oz, tx, ty, tz)
        assume(turns >= 1)
        assume(turns <= 50)
        o = (ox, oy, oz)
        pre = mkpre(pos=o, relative=rel)
        g, rec = prepare(pre)
        target = (tx, ty, tz)[:dims]
        calls = capture_forward(g, "helix", lambda g: g.trace.spiral(target, turns))
        if len(calls) != 1:
            return V("spiral-did-not-call-helix-once", lambda: f"{calls!r}")
        a, kw = calls[0]
        h_center = a[1]
        if (h_center[0] or 0) != 0 or (h_center[1] or 0) != 0:
            return V("spiral-centre-is-not-the-start", lambda: f"centre offset {tuple(h_center)!r}")
        if tuple(a[0]) != tuple(target) or a[2] != turns:
            return V("spiral-arguments-not-forwarded", lambda: f"{a!r}")
        reached("captured")
        return None
    return h


def _make_arc_like(shape, rel, dims):
    def h(ox: Finite, oy: Finite, oz: Finite, tx: Finite, ty: Finite, tz: Finite, cx: Finite,
          cy: Finite):
        _box(ox, oy, oz, tx, ty, tz, cx, cy)
        o = (ox, oy, oz)
        pre = mkpre(pos=o, relative=rel)
        g, rec = prepare(pre)
        target = (tx, ty, tz)[:dims]
        if shape == "arc":
            calls = capture_arc_like(g, lambda g: g.trace.arc(target, (cx, cy)))
        else:
            calls = capture_arc_like(g, lambda g: g.trace.helix(target, (cx, cy), 2))
        if len(calls) != 2:
            return V(f"{shape}-geometry-not-captured", lambda: f"{calls!r}")
        (dox, doy), (dtx, dty) = calls
        t_abs = tuple((o[i] + v) if rel else v for i, v in enumerate(target))
        # centre = start + offset  =>  start - centre = -offset ; target - centre
        if not (num_eq(dox, -cx) and num_eq(doy, -cy)):
            return V(f"{shape}-centre-is-not-start-plus-offset",
                     lambda: f"start-centre = ({dox!r},{doy!r}), offset ({cx!r},{cy!r})")
        if not (num_eq(dtx, t_abs[0] - (ox + cx)) and num_eq(dty, t_abs[1] - (oy + cy))):
            return V(f"{shape}-target-not-absolute",
                     lambda: f"target-centre = ({dtx!r},{dty!r}), expected "
                             f"({t_abs[0] - (ox + cx)!r},{t_abs[1] - (oy + cy)!r})")
        reached("captured")
        return None
    return h


def _make_arc_height(rel, dims, direction):
    """arc(): the Z travel is target z - start z (0 for a 2D target), the path length handed to the
    sampler is hypot(arc length, Z travel), and extra parameters are forwarded."""
    def h(ox: Finite, oy: Finite, oz: Finite, tx: Finite, ty: Finite, tz: Finite, cx: Finite,
          cy: Finite, f: Finite):
        _box(ox, oy, oz, tx, ty, tz, cx, cy)
        assume(f >= 0)
        o = (ox, oy, oz)
        pre = mkpre(pos=o, relative=rel)
        g, rec = prepare(pre)
        g.set_direction(direction)
        target = (tx, ty, tz)[:dims]
        try:
            recd, calls = capture_arc_full(g, lambda g: g.trace.arc(target, (cx, cy), F=f))
        except Exception as e:  # noqa: BLE001
            msg = f"{exc_name(e)}: {e}"
            return V("arc-unexpected-exception", msg)
        if len(calls) != 1:
            return V("arc-did-not-call-parametric-once", lambda: f"{calls!r}")
        fn, length, kw = calls[0]
        if len(recd.hypots) != 3:
            return V("arc-path-length-is-not-hypot-of-arc-length-and-z-travel",
                     lambda: f"hypot calls {recd.hypots!r}, length handed to the sampler {length!r}")
        t_z = (oz + tz if rel else tz) if dims == 3 else oz
        want_height = t_z - oz
        sweep = -1.25 if direction == "clockwise" else (0.25 - 1.0 + 2 * math.pi)
        if direction == "clockwise":
            sweep = 0.25 - 1.0           # already negative
        arc_len, height = recd.hypots[2]
        if not num_eq(height, want_height):
            return V("arc-z-travel-wrong",
                     lambda: f"Z travel {height!r}, expected {want_height!r} (start z {oz!r}, target "
                             f"{target!r}, {'relative' if rel else 'absolute'} mode)")
        if not num_eq(arc_len if arc_len >= 0 else -arc_len, 2.0 * (sweep if sweep >= 0 else -sweep)):
            return V("arc-length-is-not-radius-times-sweep",
                     lambda: f"first hypot argument {arc_len!r}, radius 2.0, sweep {sweep!r}")
        if length != ArcRecorder.LENGTH:
            return V("arc-path-length-is-not-hypot-of-arc-length-and-z-travel",
                     lambda: f"length handed to the sampler {length!r}")
        if kw.get("F") is None or not num_eq(kw["F"], f):
            return V("arc-parameters-not-forwarded", lambda: f"{kw!r}")
        reached("captured")
        return None
    return h


def _make_polyline(rel, npoints):
    def core(o, pts):
        pre = mkpre(pos=o, relative=rel)
        g, rec = prepare(pre)
        m = machine_for(pre, rec)
        e = attempt(g.trace.polyline, [tuple(p) for p in pts])
        if e is not None:
            msg = f"{exc_name(e)}: {e}"
            return V("polyline-unexpected-exception", msg)
        try:
            lines = split_lines(rec.text())
        except Malformed as mf:
            return V("polyline-malformed-output", str(mf))
        if len(lines) != len(pts):
            return V("polyline-wrong-number-of-moves", lambda: f"{len(lines)} lines for {len(pts)} points")
        cur = list(o)
        for k, (line, p) in enumerate(zip(lines, pts)):
            words = m.run_line(line)
            if [w.text for w in words if w.letter == "G"] not in (["1"], ["01"]):
                return V("polyline-not-a-linear-move", lambda: f"{line!r}")
            for i in range(3):
                cur[i] = (cur[i] + p[i]) if rel else p[i]
            for i, a in enumerate("XYZ"):
                if not num_eq(m.pos[a], cur[i]):
                    return V("polyline-does-not-visit-the-given-point",
                             lambda: f"vertex {k}: machine {a}={m.pos[a]!r}, expected {cur[i]!r}; "
                                     f"output={rec.text()!r}")
        for i in range(3):
            if not num_eq(g.position[i], cur[i]):
                return V("polyline-final-position-wrong", lambda: f"{tuple(g.position)!r} vs {cur!r}")
        reached("visited")
        return None

    if npoints == 1:
        def h(ox: Finite, oy: Finite, oz: Finite, ax: Finite, ay: Finite, az: Finite):
            return core((ox, oy, oz), [(ax, ay, az)])
    elif npoints == 2:
        # two points: x and y symbolic, z concrete (keeps the zero-test case split tractable)
        def h(ox: Finite, oy: Finite, ax: Finite, ay: Finite, bx: Finite, by: Finite):
            return core((ox, oy, 1.0), [(ax, ay, 2.5), (bx, by, -4.0)])
    else:
        def h(ox: Finite, ax: Finite, bx: Finite, cx: Finite):
            return core((ox, 2.0, 1.0), [(ax, 3.0, 2.5), (bx, -7.0, -4.0), (cx, 0.5, 6.0)])
    return h


def _make_spline(rel, npts):
    """Control points handed to the spline fit: the start followed by the given points, in order,
    with only CONSECUTIVE duplicates removed (every given point must be passed, in order)."""
    def core(o, pts_abs):
        pre = mkpre(pos=o, relative=rel)
        g, rec = prepare(pre)
        cur = o
        given = []
        for p in pts_abs:
            given.append(tuple(p[i] - cur[i] for i in range(2)) if rel else p)
            cur = (p[0], p[1], o[2])
        calls = capture_spline(g, lambda g: g.trace.spline(given))
        want = [o]
        for p in pts_abs:
            q = (p[0], p[1], o[2])
            if not (q[0] == want[-1][0] and q[1] == want[-1][1]):
                want.append(q)
        if len(want) < 2:
            if calls and calls[0][0] != "rejected":
                return V("spline-accepted-a-single-point", lambda: f"{calls!r}")
            reached("captured")
            return None
        if len(calls) != 3:
            return V("spline-controls-not-captured", lambda: f"{calls!r} for {pts_abs!r} from {o!r}")
        for axis, (thetas, values) in enumerate(calls):
            if len(values) != len(want):
                return V("spline-drops-or-adds-control-points",
                         lambda: f"controls {[c[1] for c in calls]!r}, expected {want!r}")
            for v, w in zip(values, want):
                if not num_eq(v, w[axis]):
                    return V("spline-control-point-wrong",
                             lambda: f"controls {[c[1] for c in calls]!r}, expected {want!r}")
        reached("captured")
        return None

    if npts == 2:
        def h(ox: Finite, oy: Finite, ax: Finite, ay: Finite, bx: Finite, by: Finite):
            _box(ox, oy, ax, ay, bx, by)
            return core((ox, oy, 1.0), [(ax, ay), (bx, by)])
    else:
        def h(ox: Finite, oy: Finite, ax: Finite, ay: Finite, bx: Finite, by: Finite, cx: Finite,
              cy: Finite):
            _box(ox, oy, ax, ay, bx, by, cx, cy)
            return core((ox, oy, 1.0), [(ax, ay), (bx, by), (cx, cy)])
    return h


class _RadiusNp:
    """numpy for tracer.arc_radius on a 3-4-5 configuration scaled by a symbolic k."""

    def __init__(self, k):
        self.k = k
        self.sqrt_args = []

    def hypot(self, a, b):
        if b == 0:
            return a if a >= 0 else -a
        if a == 0:
            return b if b >= 0 else -b
        raise NotImplementedError("hypot on a non axis-aligned chord")

    def sqrt(self, x):
        self.sqrt_args.append(x)
        return 4 * self.k

    def copysign(self, a, b):
        return (a if a >= 0 else -a) if b >= 0 else (-a if a >= 0 else a)

    def __getattr__(self, name):
        import numpy
        return getattr(numpy, name)


def _make_arc_radius(direction, positive, rel, axis):
    """arc_radius hands arc() a centre at distance |radius| from start and target, on the side
    that gives the minor arc for a positive and the major arc for a negative radius."""
    def h(ox: Finite, oy: Finite, k: Finite):
        _box(ox, oy)
        assume(k > 0)
        assume(k <= 100)
        o = (ox, oy, 2.0)
        pre = mkpre(pos=o, relative=rel)
        g, rec = prepare(pre)
        g.set_direction(direction)
        chord = {"+x": (6 * k, 0), "-x": (-6 * k, 0), "+y": (0, 6 * k), "-y": (0, -6 * k)}[axis]
        t_abs = (ox + chord[0], oy + chord[1])
        target = chord if rel else t_abs
        radius = 5 * k if positive else -5 * k
        npx = _RadiusNp(k)
        if MODE.symbolic:
            with tracer_np(npx):
                calls = capture_forward(g, "arc", lambda g: g.trace.arc_radius(target, radius))
        else:
            calls = capture_forward(g, "arc", lambda g: g.trace.arc_radius(target, radius))
        if len(calls) != 1:
            return V("arc_radius-did-not-call-arc-once", lambda: f"{calls!r}")
        if MODE.symbolic:
            if len(npx.sqrt_args) != 1:
                return V("arc_radius-unexpected-sqrt-calls", lambda: f"{npx.sqrt_args!r}")
            d = npx.sqrt_args[0] - 16 * k * k
            if d > 1e-9 or -d > 1e-9:
                return V("arc_radius-height-formula-wrong",
                         lambda: f"sqrt argument {npx.sqrt_args[0]!r}, expected r^2-(d/2)^2 = {16 * k * k!r}")
        a, kw = calls[0]
        c_rel = a[1]
        cx, cy = c_rel[0], c_rel[1]
        # minor arc <=> centre to the right of the travel direction for clockwise, left for counter
        clockwise = direction == "clockwise"
        minor = positive
        right = (clockwise == minor)
        # unit normal pointing right of the chord direction (dx,dy) is (dy,-dx)/|d|
        ux, uy = chord[0] / 6, chord[1] / 6          # = k * unit chord
        nx, ny = (uy, -ux) if right else (-uy, ux)
        want = (chord[0] / 2 + 4 * nx, chord[1] / 2 + 4 * ny)
        tol = 1e-6
        for got, exp in ((cx, want[0]), (cy, want[1])):
            d = got - exp
            if d > tol or -d > tol:
                return V("arc_radius-centre-on-the-wrong-side-or-distance",
                         lambda: f"direction={direction} radius={'+' if positive else '-'}5k k={k!r} chord "
                                 f"{chord!r}: centre offset ({cx!r}, {cy!r}), expected {want!r}")
        if tuple(a[0]) != tuple(target):
            return V("arc_radius-target-not-forwarded", lambda: f"{a[0]!r}")
        reached("captured")
        return None
    return h


def _make_enforce(direction):
    from gscrib.enums import Direction

    def h(a: Finite):
        two_pi = 2 * math.pi
        # difference of two atan2 values of real offsets lies in the open interval (-2pi, 2pi)
        assume(a > -two_pi)
        assume(a < two_pi)
        d = Direction(direction)
        r = d.enforce(a)
        ft = d.full_turn()
        if direction == "clockwise":
            if not (r < 0 or (r == 0 and False)) or r < -two_pi:
                return V("enforce-clockwise-sign", lambda: f"enforce({a!r}) = {r!r}")
            if ft != -two_pi:
                return V("full-turn-sign", lambda: f"{ft!r}")
        else:
            if not (r > 0) or r > two_pi:
                return V("enforce-counter-sign", lambda: f"enforce({a!r}) = {r!r}")
            if ft != two_pi:
                return V("full-turn-sign", lambda: f"{ft!r}")
        delta = r - a
        if not (delta == 0 or delta == ft):
            return V("enforce-changes-the-end-point", lambda: f"enforce({a!r}) = {r!r}")
        reached("ok")
        return None
    return h


PREFIXES = ["none", "circle-cw", "circle-ccw", "half-cw", "half-ccw", "rejected-circle",
            "rejected-circle-bounds", "quarter-cw"]


def _make_concrete_history(prefix, shape, direction, rel):
    """CONCRETE (not solver-decided): a second tracer call on a tracer that has already traced
    (or rejected) something. The real code with the real numpy runs; the emitted polyline of the
    second call is checked against the circle it must follow: constant radius, monotone in the
    selected direction, the expected sweep, end on target."""
    from gscrib import GCodeBuilder
    from ..fixture import Rec

    def h():
        if MODE.symbolic:
            from ..shims import TOKENS
            TOKENS.clear()
        try:
            g = GCodeBuilder(line_endings="\\n")
            rec = Rec()
            g.add_writer(rec)
            g.move(x=0.0, y=0.0, z=0.0)
            g.set_resolution(0.2)
            C = (3.0, 0.0)

            def do(kind, d):
                g.set_direction(d)
                if kind == "circle":
                    g.trace.circle(C if True else None)
                elif kind == "half":
                    g.trace.arc((6.0, 0.0), C)
                elif kind == "quarter":
                    g.trace.arc((3.0, 3.0 if d == "clockwise" else -3.0), C)
            try:
                if prefix.startswith(("circle-", "half-", "quarter-")):
                    kind, d = prefix.split("-")
                    do(kind, "clockwise" if d == "cw" else "counter")
                    if kind != "circle":           # come back to the origin
                        g.move(x=0.0, y=0.0)
                elif prefix == "rejected-circle":
                    e = attempt(g.trace.circle, (0.0, 0.0))
                    if e is None:
                        return V("zero-radius-circle-accepted", "")
                elif prefix == "rejected-circle-bounds":
                    g.set_bounds("axes", (-1.0, -4.0, -1.0), (4.0, 4.0, 1.0))
                    e = attempt(g.trace.circle, C)
                    if e is None:
                        return V("circle-leaving-the-bounds-accepted", "")
                    g.set_bounds("axes", (-100.0, -100.0, -100.0), (100.0, 100.0, 100.0))
                    g.move(x=0.0, y=0.0)
            except Exception as e:  # noqa: BLE001
                msg = f"{exc_name(e)}: {e}"
                return V("history-prefix-raised", msg)
            if rel:
                g.set_distance_mode("relative")
            n0 = len(split_lines(rec.text()))
            try:
                do(shape, direction)
            except Exception as e:  # noqa: BLE001
                msg = f"{exc_name(e)}: {e}"
                return V("history-second-trace-raised", lambda: f"{shape} {direction} after {prefix}: {msg}")
            m = RefMachine(tokens())
            lines = split_lines(rec.text())
            for line in lines[:n0]:
                m.run_line(line)
            start = (m.pos["X"], m.pos["Y"])
            verts = []
            for line in lines[n0:]:
                m.run_line(line)
                verts.append((m.pos["X"], m.pos["Y"]))
            ctx = lambda: f"{shape} {direction} {'G91' if rel else 'G90'} after {prefix}: start {start!r}, {len(verts)} vertices, first {verts[:3]!r} last {verts[-2:]!r}"  # noqa: E731
            if abs(start[0]) > 1e-3 or abs(start[1]) > 1e-3 or not verts:
                return V("history-bad-start-or-no-vertices", ctx)
            if shape == "circle":
                target = (0.0, 0.0)
            elif shape == "half":
                target = (6.0, 0.0)
            else:
                target = (3.0, 3.0 if direction == "clockwise" else -3.0)
            tol = 2e-3 if rel else 2e-4        # relative offsets accumulate output rounding
            if abs(verts[-1][0] - target[0]) > tol or abs(verts[-1][1] - target[1]) > tol:
                return V("history-trace-does-not-end-on-target", ctx)
            sign = -1.0 if direction == "clockwise" else 1.0
            prev = math.atan2(start[1] - C[1], start[0] - C[0])
            total = 0.0
            for v in verts:
                r = math.hypot(v[0] - C[0], v[1] - C[1])
                if abs(r - 3.0) > tol:
                    return V("history-vertex-off-the-circle", lambda: f"radius {r!r} at {v!r}; {ctx()}")
                a = math.atan2(v[1] - C[1], v[0] - C[0])
                d = a - prev
                while d > math.pi:
                    d -= 2 * math.pi
                while d < -math.pi:
                    d += 2 * math.pi
                if d * sign < -1e-3:
                    return V("history-trace-not-monotone-in-the-selected-direction",
                             lambda: f"step {d!r} at {v!r}; {ctx()}")
                total += d
                prev = a
            want = {"circle": 2 * math.pi, "half": math.pi, "quarter": math.pi / 2}[shape] * sign
            if abs(total - want) > 2e-2:
                return V("history-trace-sweep-wrong", lambda: f"swept {total!r}, expected {want!r}; {ctx()}")
            reached("checked")
            return None
        finally:
            pass
    return h


def validate():
    fc = frame_condition()
    if fc:
        print(f"NOTE tracer frame condition no longer holds syntactically: {fc[:3]}")
    return {"checked": 1, "failures": [], "frame_condition_violations": fc}


def cells(tier):
    out = []
    budget = 120 if tier == "quick" else 600
    for rel in (False, True):
        m = "rel" if rel else "abs"
        for dims in (2, 3):
            out.append(Cell(f"thread|{m}|{dims}d", _make_thread(rel, dims), budget_s=budget,
                            must_reach=("captured",), entry="PathTracer.thread"))
            out.append(Cell(f"spiral|{m}|{dims}d", _make_spiral(rel, dims), budget_s=budget,
                            must_reach=("captured",), entry="PathTracer.spiral"))
            for shape in ("arc", "helix"):
                out.append(Cell(f"{shape}|{m}|{dims}d", _make_arc_like(shape, rel, dims),
                                budget_s=budget, must_reach=("captured",), entry=f"PathTracer.{shape}"))
        out.append(Cell(f"circle|{m}", _make_circle(rel), budget_s=budget, must_reach=("captured",),
                        entry="PathTracer.circle"))
        for n in ((1, 2) if tier == "quick" else (1, 2, 3)):
            out.append(Cell(f"polyline|{m}|points={n}", _make_polyline(rel, n), budget_s=budget,
                            must_reach=("visited",), entry="PathTracer.polyline"))
    for rel in (False, True):
        for dims in (2, 3):
            for direction in ("clockwise", "counter"):
                out.append(Cell(f"arc-height-length|{'rel' if rel else 'abs'}|{dims}d|{direction}",
                                _make_arc_height(rel, dims, direction), budget_s=budget,
                                must_reach=("captured",), entry="PathTracer.arc"))
    for rel in (False, True):
        for n in ((2,) if tier == "quick" else (2, 3)):
            out.append(Cell(f"spline-controls|{'rel' if rel else 'abs'}|points={n}", _make_spline(rel, n),
                            budget_s=budget * 2, must_reach=("captured",), entry="PathTracer.spline"))
    for direction in ("clockwise", "counter"):
        for positive in (True, False):
            for rel in (False, True):
                for axis in (("+x", "-y") if tier == "quick" else ("+x", "-x", "+y", "-y")):
                    out.append(Cell(f"arc_radius|{direction}|{'+' if positive else '-'}r|"
                                    f"{'rel' if rel else 'abs'}|chord={axis}",
                                    _make_arc_radius(direction, positive, rel, axis), budget_s=budget,
                                    must_reach=("captured",), entry="PathTracer.arc_radius"))
    for d in ("clockwise", "counter"):
        for prefix in PREFIXES:
            for shape in ("circle", "half", "quarter"):
                for rel in (False, True):
                    out.append(Cell(f"history-concrete|after={prefix}|{shape}|{d}|{'rel' if rel else 'abs'}",
                                    _make_concrete_history(prefix, shape, d, rel), budget_s=60,
                                    must_reach=("checked",), entry="PathTracer (second call on a used tracer)",
                                    note="concrete, not solver-decided"))
        out.append(Cell(f"enforce|{d}", _make_enforce(d), budget_s=budget, must_reach=("ok",),
                        entry="Direction.enforce"))
    return out
