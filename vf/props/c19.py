"""C19 — heightmaps: the plain-Python parts (range check, row/column order and scale of a lookup,
the drop rule of the path filter, sample_path wiring). Interpolation itself is compiled code."""

import importlib

from ..runner import Cell
from ..driver import Finite, assume
from ..mode import MODE, V, reached, num_eq

PROPERTY_ID = "C19"
FUNCTIONS = [
    "RasterHeightMap.get_depth_at/get_width/get_height/sample_path/_filter_points/set_scale/set_tolerance",
    "SparseHeightMap.get_depth_at/sample_path/_filter_points/set_scale/set_tolerance",
    "FlatHeightMap.get_depth_at",
]
BOUNDS = ("ONLY the plain-Python logic around the compiled interpolators. (1) _filter_points of both "
          "map types on N = 2..8 (quick 2..5) points with symbolic heights and a symbolic tolerance "
          ">= 0: the result starts with the first and ends with the last point, is an in-order "
          "subsequence of the samples, every dropped sample differs from the previously kept height "
          "by less than the tolerance and every kept inner sample by at least the tolerance. "
          "(2) sample_path = filter(interpolated line, configured tolerance) (line interpolation "
          "stubbed); and the real line interpolation of both map types on a concrete line with "
          "symbolic heights and scale: points on the line in order, each carrying scale x the height "
          "looked up at its own (x, y). (3) raster get_depth_at(x, y): for all finite x, y, map sizes 4..7 and scales: "
          "0.0 outside [0,width) x [0,height), otherwise scale x interpolator(row=y, column=x) with "
          "the interpolator stubbed to a symbolic height; sparse get_depth_at = scale x "
          "interpolator(x, y); set_scale / set_tolerance reject non-positive / negative values. "
          "NOT decided: that the spline / Delaunay interpolants reproduce the stored samples, stay "
          "between min and max, return 0 outside the hull; the rasterisation of the line "
          "(skimage draw.line); image loading.")
ASSUMPTIONS = [
    "the scipy interpolators and skimage/OpenCV calls are replaced by recording stubs returning "
    "symbolic heights; numpy.array/array_equal inside _filter_points are list versions",
    "heightmap objects are created without their constructors (which load images / build splines)",
]

raster_mod = importlib.import_module("gscrib.heightmaps.raster_heightmap")
sparse_mod = importlib.import_module("gscrib.heightmaps.sparse_heightmap")


class ListNp:
    """numpy facade for _filter_points on lists of (x, y, z) tuples."""

    @staticmethod
    def array_equal(a, b):
        return tuple(a) == tuple(b)

    @staticmethod
    def array(x, *a, **k):
        return list(x)

    def __getattr__(self, name):
        import numpy
        return getattr(numpy, name)


def _new(kind):
    cls = raster_mod.RasterHeightMap if kind == "raster" else sparse_mod.SparseHeightMap
    return object.__new__(cls)


base_mod = importlib.import_module("gscrib.heightmaps.base_heightmap")


def _with_np(kind, fn):
    # the filter may live in the concrete class or in the base class: shim numpy wherever it is used
    if not MODE.symbolic:
        return fn()
    mods = [m for m in (raster_mod, sparse_mod, base_mod)]
    olds = [getattr(m, "numpy", None) for m in mods]
    for m in mods:
        m.numpy = ListNp()
    try:
        return fn()
    finally:
        for m, old in zip(mods, olds):
            if old is None:
                del m.numpy
            else:
                m.numpy = old


def _points(zs):
    import numpy
    pts = [(float(i), float(2 * i + 1), z) for i, z in enumerate(zs)]
    if MODE.symbolic:
        return pts
    return numpy.array(pts)


def _check_filter(pts, out, tol, label):
    pts = [tuple(p) for p in pts]
    out = [tuple(p) for p in out]
    ctx = lambda: f"{label}: samples {pts!r}, tolerance {tol!r} -> {out!r}"  # noqa: E731
    if not out or out[0] != pts[0]:
        return V("path-does-not-start-at-the-first-sample", ctx)
    if out[-1] != pts[-1]:
        return V("path-does-not-end-at-the-last-sample", ctx)
    # in-order subsequence (greedy matching on the concrete x coordinate, which is unique)
    idx = []
    pos = 0
    for o in out:
        while pos < len(pts) and pts[pos][0] != o[0]:
            pos += 1
        if pos >= len(pts) or pts[pos] != o:
            # the first sample may legitimately appear twice when tolerance == 0
            if o == pts[0] and len(idx) == 1:
                continue
            return V("path-is-not-an-in-order-subsequence-of-the-samples", ctx)
        idx.append(pos)
    kept = set(idx)
    last_z = pts[0][2]
    for i, p in enumerate(pts):
        d = p[2] - last_z
        if d < 0:
            d = -d
        if i in kept and i not in (0, len(pts) - 1):
            if d < tol:
                return V("kept-sample-is-closer-than-the-tolerance",
                         lambda: f"sample {i} differs by {d!r}; {ctx()}")
        if i not in kept:
            if d >= tol:
                return V("dropped-sample-differs-by-at-least-the-tolerance",
                         lambda: f"sample {i} differs by {d!r} from the last kept height; {ctx()}")
        if i in kept and (d >= tol or i == 0):
            last_z = p[2]
    return None


def _make_filter(kind, n, via_sample_path):
    def core(zs, tol):
        assume(tol >= 0)
        hm = _new(kind)
        hm._tolerance = tol
        pts = _points(zs)

        def run():
            if via_sample_path:
                hm._interpolate_line = lambda line: pts
                return hm.sample_path([0.0, 1.0, 5.0, 6.0])
            return hm._filter_points(pts, tol)
        try:
            out = _with_np(kind, run)
        except Exception as e:  # noqa: BLE001
            msg = f"{type(e).__name__}: {e}"
            return V("filter-unexpected-exception", msg)
        v = _check_filter(pts, out, tol, f"{kind} n={n}")
        if v is None:
            reached("checked")
        return v

    params = [f"z{i}" for i in range(n)] + ["tol"]
    src = f"def h({', '.join(params)}):\n    return core([{', '.join(params[:-1])}], tol)\n"
    ns = {"core": core}
    exec(src, ns)
    h = ns["h"]
    h.__annotations__ = {p: Finite for p in params}
    return h


class _Shape:
    def __init__(self, h, w):
        self.shape = (h, w)


def _make_raster_lookup(height, width):
    def h(x: Finite, y: Finite, hv: Finite, scale: Finite):
        assume(scale > 0)
        hm = _new("raster")
        hm._height_map = _Shape(height, width)
        hm._scale_z = scale
        calls = []

        class Interp:
            def __call__(self, a, b):
                calls.append((a, b))
                return [[hv]] if MODE.symbolic else __import__("numpy").array([[hv]])

            def __getitem__(self, k):
                raise TypeError
        hm._interpolator = Interp()
        if MODE.symbolic:
            # result[0, 0] on a list of lists: emulate ndarray indexing
            class Grid(list):
                def __getitem__(self, k):
                    if isinstance(k, tuple):
                        return list.__getitem__(list.__getitem__(self, k[0]), k[1])
                    return list.__getitem__(self, k)
            hm._interpolator = lambda a, b: (calls.append((a, b)) or Grid([[hv]]))
        try:
            got = hm.get_depth_at(x, y)
        except Exception as e:  # noqa: BLE001
            msg = f"{type(e).__name__}: {e}"
            return V("lookup-unexpected-exception", msg)
        inside = (0 <= x) and (x < width) and (0 <= y) and (y < height)
        ctx = lambda: f"x={x!r} y={y!r} size={width}x{height} scale={scale!r} -> {got!r}, calls={calls!r}"  # noqa: E731
        if hm.get_width() != width or hm.get_height() != height:
            return V("width-height-swapped", ctx)
        if not inside:
            if got != 0.0 or calls:
                return V("nonzero-or-lookup-outside-the-data", ctx)
            reached("outside")
            return None
        if len(calls) != 1 or not (calls[0][0] == y and calls[0][1] == x):
            return V("row-column-order-wrong", ctx)
        if not num_eq(got, scale * hv):
            return V("height-not-scaled", ctx)
        reached("inside")
        return None
    return h


def _make_sparse_lookup():
    def h(x: Finite, y: Finite, hv: Finite, scale: Finite):
        assume(scale > 0)
        hm = _new("sparse")
        hm._scale_z = scale
        calls = []
        hm._interpolator = lambda a, b: (calls.append((a, b)) or hv)
        got = hm.get_depth_at(x, y)
        if len(calls) != 1 or not (calls[0][0] == x and calls[0][1] == y):
            return V("sparse-lookup-argument-order-wrong", lambda: f"{calls!r} for ({x!r}, {y!r})")
        if not num_eq(got, scale * hv):
            return V("height-not-scaled", lambda: f"{got!r} vs {scale!r}*{hv!r}")
        reached("inside")
        return None
    return h


def _make_interpolate_line(kind):
    """The real _interpolate_line / sample_path of both map types on a concrete line with a stub
    interpolator returning symbolic heights: every returned point carries scale x the map's height
    at its own (x, y), the path starts and ends at the line ends, points are in order."""
    def h(h0: Finite, h1: Finite, h2: Finite, h3: Finite, scale: Finite):
        assume(scale > 0)
        heights = [h0, h1, h2, h3]
        hm = _new(kind)
        hm._scale_z = scale
        hm._tolerance = 0.0 if kind == "raster" else 1.0
        calls = []

        def lookup(xy):
            calls.append(xy)
            return heights[len(calls) - 1]

        if kind == "raster":
            hm._height_map = _Shape(6, 6)

            class Grid(list):
                def __getitem__(self, k):
                    if isinstance(k, tuple):
                        return list.__getitem__(list.__getitem__(self, k[0]), k[1])
                    return list.__getitem__(self, k)
            hm._interpolator = lambda row, col: Grid([[lookup((col, row))]])
            line = [1.0, 2.0, 4.0, 2.0]           # horizontal: 4 pixels (1,2) .. (4,2)
            want_xy = [(1, 2), (2, 2), (3, 2), (4, 2)]
        else:
            hm._interpolator = lambda x, y: lookup((x, y))
            line = [0.0, 1.0, 3.0, 1.0]           # length 3, tolerance 1 -> 3 segments, 4 points
            want_xy = [(0.0, 1.0), (1.0, 1.0), (2.0, 1.0), (3.0, 1.0)]
        hm._filter_points = lambda pts, tol: pts   # the filter has its own cells
        try:
            out = _with_np(kind, lambda: hm.sample_path(line))
        except Exception as e:  # noqa: BLE001
            msg = f"{type(e).__name__}: {e}"
            return V("sample_path-unexpected-exception", msg)
        out = [tuple(p) for p in out]
        ctx = lambda: f"{kind} line {line!r}: points {out!r}, look-ups {calls!r}, scale {scale!r}"  # noqa: E731
        if len(out) != 4 or len(calls) != 4:
            return V("sample_path-wrong-number-of-points-or-lookups", ctx)
        for i, (p, xy) in enumerate(zip(out, want_xy)):
            if not (num_eq(p[0], xy[0]) and num_eq(p[1], xy[1])):
                return V("sample_path-point-not-on-the-line-in-order", ctx)
            cx, cy = calls[i]
            if not (num_eq(cx, xy[0]) and num_eq(cy, xy[1])):
                return V("sample_path-height-looked-up-elsewhere", ctx)
            if not num_eq(p[2], scale * heights[i]):
                return V("sample_path-point-does-not-carry-the-maps-height", ctx)
        reached("checked")
        return None
    return h


def _make_setters(kind):
    def h(s: float, t: float):
        hm = _new(kind)
        hm._scale_z, hm._tolerance = 1.0, 0.1
        e1 = e2 = None
        try:
            hm.set_scale(s)
        except Exception as e:  # noqa: BLE001
            e1 = type(e).__name__
        try:
            hm.set_tolerance(t)
        except Exception as e:  # noqa: BLE001
            e2 = type(e).__name__
        if s > 0:
            if e1 is not None or hm._scale_z != s:
                return V("valid-scale-rejected-or-not-stored", lambda: f"{s!r}: {e1}")
        elif s <= 0:
            if e1 != "ValueError" or hm._scale_z != 1.0:
                return V("non-positive-scale-accepted", lambda: f"{s!r}: {e1}, scale now {hm._scale_z!r}")
        if t >= 0:
            if e2 is not None or hm._tolerance != t:
                return V("valid-tolerance-rejected-or-not-stored", lambda: f"{t!r}: {e2}")
        elif t < 0:
            if e2 != "ValueError" or hm._tolerance != 0.1:
                return V("negative-tolerance-accepted", lambda: f"{t!r}: {e2}")
        reached("checked")
        return None
    return h


def cells(tier):
    out = []
    quick = tier == "quick"
    for kind in ("raster", "sparse"):
        for n in range(2, 6 if quick else 9):
            for via in (False, True):
                if quick and via and n not in (3, 4):
                    continue
                out.append(Cell(f"filter|{kind}|n={n}|{'sample_path' if via else '_filter_points'}",
                                _make_filter(kind, n, via), budget_s=200 if quick else 900,
                                must_reach=("checked",), entry=f"{kind}._filter_points"))
        out.append(Cell(f"setters|{kind}", _make_setters(kind), budget_s=120, must_reach=("checked",),
                        entry=f"{kind}.set_scale/set_tolerance"))
    for kind in ("raster", "sparse"):
        out.append(Cell(f"interpolate-line|{kind}", _make_interpolate_line(kind), budget_s=120,
                        must_reach=("checked",), entry=f"{kind}.sample_path/_interpolate_line"))
    for (hh, ww) in ((4, 4), (4, 7), (6, 5)):
        out.append(Cell(f"raster-lookup|{ww}x{hh}", _make_raster_lookup(hh, ww), budget_s=120,
                        must_reach=("inside", "outside"), entry="RasterHeightMap.get_depth_at"))
    out.append(Cell("sparse-lookup", _make_sparse_lookup(), budget_s=120, must_reach=("inside",),
                    entry="SparseHeightMap.get_depth_at"))
    return out
