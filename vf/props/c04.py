"""C04 — coordinate transforms are applied faithfully to every move."""

import itertools

from ..runner import Cell
from ..driver import Finite, assume
from .common import *  # noqa: F401,F403
from .c13 import Model, _trans, _rot, _scale, _reflect, apply_op

PROPERTY_ID = "C04"
FUNCTIONS = [
    "GCodeCore.move/rapid, GCodeBuilder.probe", "GCodeCore._transform_move", "GCodeCore.to_absolute",
    "Point.combine/resolve/replace/to_vector/from_vector/__sub__",
    "CoordinateTransformer.apply_transform, Transform.apply, Transform._chain_matrix",
    "CoordinateTransformer.translate/rotate/scale/reflect/mirror/set_pivot",
    "DefaultFormatter.command/parameters/number",
]
BOUNDS = ("The transform dimension is ENUMERATED, not solved: a finite family of transforms built "
          "through the real API with concrete parameters (translate, rotate z 90/37.5, rotate x 30, "
          "rotate y -45, uniform/non-uniform scale, reflect, mirror; each with and without a "
          "non-zero pivot; compositions of length 2 (quick: curated, thorough: all) and 3 (thorough, "
          "curated)). Cell grid: transform x entry {move, rapid, probe} x distance mode x which "
          "arguments are given. Solver over: the tracked position and the arguments (all reals in "
          "[-1000,1000]). Oracle: an independently composed 4x4 matrix in pure Python. Step of the "
          "invariant 'machine = transform(tracked position)': after the call the interpreted "
          "machine position equals the model image of the independently computed target within "
          "1e-6 on every axis (this contains both clauses: each mentioned word is the image / "
          "linear image, and every axis that has to change is mentioned). Plus TRUE histories from a "
          "fresh builder: move, transform change, move (G90 or G91), transform change (incl. "
          "save/restore of stacked and named states, a context manager), move or rapid; the words of "
          "each move are checked against the transform current at that moment (quick: 10 curated "
          "pairs of changes, thorough: all 144 pairs of 12 change sequences).")
ASSUMPTIONS = [
    "transform parameters are concrete (matrices come from numpy/scipy)",
    "all three axes known to builder and machine in the pre-state (None patterns are C01's subject)",
    "tolerance 1e-6 on coordinates in [-1000,1000] absorbs the float noise of the numpy matrices",
]

TOL = 1e-6

# (name, real(t), model-matrix or ('pivot', p))
ATOMS = {
    "translate": (lambda t: t.translate(5.0, -2.0, 1.0), _trans(5.0, -2.0, 1.0)),
    "rotz90": (lambda t: t.rotate(90.0, "z"), _rot(90.0, "z")),
    "rotz37": (lambda t: t.rotate(37.5), _rot(37.5, "z")),
    "rotx30": (lambda t: t.rotate(30.0, "x"), _rot(30.0, "x")),
    "roty-45": (lambda t: t.rotate(-45.0, "y"), _rot(-45.0, "y")),
    "scale2": (lambda t: t.scale(2.0), _scale(2.0, 2.0, 2.0)),
    "scalexyz": (lambda t: t.scale(2.0, 0.5, 4.0), _scale(2.0, 0.5, 4.0)),
    "scalexy": (lambda t: t.scale(3.0, -1.0), _scale(3.0, -1.0, 1.0)),
    "reflect": (lambda t: t.reflect([1.0, 1.0, 0.0]), _reflect([1.0, 1.0, 0.0])),
    "reflect3": (lambda t: t.reflect([1.0, -2.0, 0.5]), _reflect([1.0, -2.0, 0.5])),
    "mirrorzx": (lambda t: t.mirror("zx"), _reflect([0.0, 1.0, 0.0])),
    "mirroryz": (lambda t: t.mirror("yz"), _reflect([1.0, 0.0, 0.0])),
    "pivot": (lambda t: t.set_pivot((1.0, -1.0, 2.0)), ("pivot", (1.0, -1.0, 2.0))),
}
PIVOT_ABLE = ["rotz90", "rotz37", "rotx30", "roty-45", "scale2", "scalexyz", "reflect", "mirrorzx"]


def build_transform(spec, t, model):
    for name in spec:
        real, mod = ATOMS[name]
        real(t)
        if isinstance(mod, tuple) and mod[0] == "pivot":
            model.pivot = mod[1]
        else:
            model.chain(mod)


def _make(spec, entry, rel, argpat):
    def h(px: Finite, py: Finite, pz: Finite, ax: Finite, ay: Finite, az: Finite):
        for c in (px, py, pz, ax, ay, az):
            assume(c >= -1000.0)
            assume(c <= 1000.0)
        p = (px, py, pz)
        args = tuple(v if has else None for has, v in zip(argpat, (ax, ay, az)))
        pre = mkpre(pos=p, relative=rel)
        g, rec = prepare(pre)
        model = Model()
        build_transform(spec, g.transform, model)
        m = RefMachine(tokens())
        start = model.image(p)
        m.pos = dict(zip("XYZ", start))
        m.relative = rel
        kw = {k: v for k, v in zip("xyz", args) if v is not None}
        if entry == "probe":
            e = attempt(g.probe, "towards", **kw)
        else:
            e = attempt(getattr(g, entry), **kw)
        if e is not None:
            msg = f"{exc_name(e)}: {e}"
            return V(f"{entry}-unexpected-exception", lambda: f"{msg} (p={p!r}, args={args!r})")
        if rel:
            target = tuple(c + (a if a is not None else 0) for c, a in zip(p, args))
        else:
            target = tuple(a if a is not None else c for c, a in zip(p, args))
        want = model.image(target)
        try:
            blocks = m.run_line(split_lines(rec.text())[0]) if rec.text() else []
            if len(split_lines(rec.text())) != 1:
                return V(f"{entry}-unexpected-line-count", lambda: f"output={rec.text()!r}")
        except Malformed as mf:
            return V(f"{entry}-malformed-output", str(mf))
        mentioned = {w.letter for w in blocks if w.letter in "XYZ"}
        ctx = lambda: (f"transform={'+'.join(spec)} p={p!r} args={args!r} rel={rel} "  # noqa: E731
                       f"output={rec.text()!r}")
        if entry == "probe":
            # probed axes become unknown; the words must still be the image of the target
            for w in blocks:
                if w.letter in "XYZ":
                    i = "XYZ".index(w.letter)
                    exp = want[i] - start[i] if rel else want[i]
                    d = w.value - exp
                    if d > TOL or -d > TOL:
                        return V("probe-word-is-not-the-image-of-the-target",
                                 lambda: f"{w.letter}={w.value!r}, expected {exp!r}; {ctx()}")
            for i, a in enumerate("XYZ"):
                if a not in mentioned:
                    d = want[i] - start[i]
                    if d > TOL or -d > TOL:
                        return V("probe-axis-that-must-change-not-mentioned",
                                 lambda: f"axis {a} must go {start[i]!r} -> {want[i]!r}; {ctx()}")
            reached("probe")
            return None
        for i, a in enumerate("XYZ"):
            d = m.pos[a] - want[i]
            if d > TOL or -d > TOL:
                kind = ("axis-that-must-change-not-mentioned" if a not in mentioned
                        else "word-is-not-the-image-of-the-target")
                return V(f"{entry}-{kind}",
                         lambda: f"axis {a}: machine ends at {m.pos[a]!r}, transform(target) is "
                                 f"{want[i]!r}; {ctx()}")
        pos = g.position
        for i in range(3):
            d = pos[i] - target[i]
            if d > TOL or -d > TOL:
                return V(f"{entry}-tracked-position-wrong",
                         lambda: f"builder reports {tuple(pos)!r}, requested target {target!r}; {ctx()}")
        reached("move")
        return None
    return h


TSEQ = [(), ("translate",), ("rotate-z",), ("scale-xyz",), ("pivot", "rotate-x"), ("save-a", "translate"),
        ("restore-a",), ("save", "rotate-z"), ("restore",), ("save-a", "restore-a", "translate"),
        ("ctx",), ("reflect",)]


def _check_words(blocks, model, origin, target, rel, ctx, what):
    """Word-level clause of the property under the transform that is current NOW: each mentioned
    word is the image (G90) / the linear image of the displacement (G91), and every axis whose image
    changes is mentioned."""
    o, t = model.image(origin), model.image(target)
    mentioned = {}
    for w in blocks:
        if w.letter in "XYZ":
            mentioned[w.letter] = w.value
    for i, a in enumerate("XYZ"):
        exp = t[i] - o[i] if rel else t[i]
        if a in mentioned:
            d = mentioned[a] - exp
            if d > TOL or -d > TOL:
                return V(f"{what}-word-is-not-the-image-of-the-target",
                         lambda: f"{a}={mentioned[a]!r}, expected {exp!r}; {ctx()}")
        else:
            d = t[i] - o[i]
            if d > TOL or -d > TOL:
                return V(f"{what}-axis-that-must-change-not-mentioned",
                         lambda: f"axis {a} must go {o[i]!r} -> {t[i]!r}; {ctx()}")
    return None


def _make_history(t1, t2, rel, second):
    """A TRUE history from a freshly constructed builder: move to a known point, change the
    transform, move, change the transform again (including save/restore of named and stacked
    states), move again. The words of every move are checked against the transform current at
    that moment."""
    from gscrib import GCodeBuilder
    from ..fixture import Rec

    def h(a: Finite, b: Finite, c: Finite, d: Finite):
        from ..shims import TOKENS
        px, py, pz = 1.5, -2.5, 3.25          # the first move only establishes a known point
        for v in (a, b, c, d):
            assume(v >= -1000.0)
            assume(v <= 1000.0)
        if MODE.symbolic:
            TOKENS.clear()
        g = GCodeBuilder(line_endings="\\n")
        rec = Rec()
        g.add_writer(rec)
        model = Model()
        g.move(x=px, y=py, z=pz)
        pos = (px, py, pz)
        log = ["move(x,y,z)"]
        ctx = lambda: f"history {log} values p={(px, py, pz)!r} a={a!r} b={b!r} c={c!r} d={d!r}; output={rec.text()!r}"  # noqa: E731
        for k, (tseq, args, entry) in enumerate(((t1, (a, b, None), "move"), (t2, (c, None, d), second))):
            for op in tseq:
                r = apply_op(op, g, model, lambda label: None)
                log.append(op)
                if r[0] == "inner":
                    return r[1]
                if r[0] != r[1]:
                    return V("history-transform-operation-exception-mismatch", lambda: f"{op}: {r!r}; {ctx()}")
            if k == 0 and rel:
                g.set_distance_mode("relative")
                log.append("G91")
            n_before = len(split_lines(rec.text()))
            kw = {n: v for n, v in zip("xyz", args) if v is not None}
            log.append(f"{entry}({','.join(kw)})")
            e = attempt(getattr(g, entry), **kw)
            if e is not None:
                msg = f"{exc_name(e)}: {e}"
                return V("history-unexpected-exception", lambda: f"{msg}; {ctx()}")
            if rel:
                target = tuple(p + (v if v is not None else 0) for p, v in zip(pos, args))
            else:
                target = tuple(v if v is not None else p for p, v in zip(pos, args))
            lines = split_lines(rec.text())[n_before:]
            if len(lines) != 1:
                return V("history-unexpected-line-count", ctx)
            try:
                blocks = RefMachine(tokens()).run_line(lines[0])
            except Malformed as mf:
                return V("history-malformed-output", str(mf))
            v = _check_words(blocks, model, pos, target, rel, ctx, "history")
            if v is not None:
                return v
            got = g.position
            for i in range(3):
                dd = got[i] - target[i]
                if dd > TOL or -dd > TOL:
                    return V("history-tracked-position-wrong",
                             lambda: f"builder reports {tuple(got)!r}, requested {target!r}; {ctx()}")
            pos = target
        reached("move")
        return None
    return h


def specs(tier):
    out = [(a,) for a in ATOMS if a != "pivot"]
    out += [("pivot", a) for a in PIVOT_ABLE]
    curated2 = [("translate", "rotz90"), ("rotz37", "translate"), ("scalexyz", "rotx30"),
                ("pivot", "rotz37", "translate"), ("reflect", "scale2"), ("rotx30", "roty-45"),
                ("translate", "pivot", "scalexyz"), ("mirrorzx", "rotz37")]
    out += curated2
    if tier != "quick":
        names = [a for a in ATOMS if a != "pivot"]
        out += [(a, b) for a in names for b in names if (a, b) not in out]
        out += [("rotz37", "translate", "rotx30"), ("pivot", "scale2", "rotz90", "translate"),
                ("reflect3", "rotz37", "scalexyz"), ("translate", "pivot", "roty-45", "pivot", "rotz37")]
    return out


def cells(tier):
    out = []
    quick = tier == "quick"
    pats = list(itertools.product([True, False], repeat=3))
    for spec in specs(tier):
        for entry in ("move", "rapid", "probe"):
            for rel in (False, True):
                for argpat in pats:
                    if entry != "move" or quick:
                        # rapids/probes (and everything in quick): single-axis and full arguments
                        if sum(argpat) not in ((1, 3) if entry == "move" else (1,)):
                            continue
                        if quick and entry != "move" and argpat != (True, False, False):
                            continue
                    name = (f"{'+'.join(spec)}|{entry}|{'rel' if rel else 'abs'}|arg="
                            + "".join("n" if a else "-" for a in argpat))
                    out.append(Cell(name, _make(spec, entry, rel, argpat),
                                    budget_s=240 if quick else 900, entry=f"GCodeBuilder.{entry}"))
    curated = [(("translate",), ()), ((), ("rotate-z",)), (("rotate-z",), ("translate",)),
               (("scale-xyz",), ("pivot", "rotate-x")), (("save-a", "translate"), ("restore-a",)),
               (("save-a", "restore-a", "translate"), ("restore-a",)), (("save", "rotate-z"), ("restore",)),
               (("ctx",), ("translate",)), (("pivot", "rotate-x"), ("scale-xyz",)),
               (("save-a", "translate"), ("save-a", "restore-a", "translate"))]
    pairs = curated if quick else [(x, y) for x in TSEQ for y in TSEQ]
    for t1, t2 in pairs:
        for rel in (False, True):
            for second in ("move", "rapid"):
                if quick and second == "rapid" and not rel:
                    continue
                name = (f"history|{'+'.join(t1) or 'id'}|{'rel' if rel else 'abs'}|move|"
                        f"{'+'.join(t2) or 'same'}|{second}")
                out.append(Cell(name, _make_history(t1, t2, rel, second), budget_s=300 if quick else 900,
                                must_reach=("move",), entry="GCodeBuilder (history from a fresh builder)"))
    return out
