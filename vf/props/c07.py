"""C07 — reported machine state mirrors the emitted program."""

from ..runner import Cell
from ..driver import Finite, assume
from .common import *  # noqa: F401,F403
from .steps import STEPS, TOOLS, COOLANTS, tool_label

PROPERTY_ID = "C07"
FUNCTIONS = [
    "every public state-tracked GCodeBuilder method (vf/props/steps.py: 99 call shapes)",
    "GCodeBuilder._track_move_params/_update_axes/_get_statement, GState setters and properties",
    "gscrib.codes.gcode_mappings (enum -> instruction table), ParamsDict",
]
BOUNDS = ("Inductive step of I7 (every public state property that the emitted program determines "
          "equals what an independent modal interpreter derives). Cell grid: 99 call shapes x tool "
          "state (5) x coolant (3) [quick: 2 machine states for non-tool calls] x distance mode. "
          "Solver over: numeric and integer arguments (reals, NaN, +-inf), pre-state feed rate, "
          "tool power, remembered E parameter, target temperatures, current tool number. "
          "Plus TRUE histories from a freshly constructed builder (no private pre-state, no "
          "invariant assumed): every pair and every triple over an 11-call core alphabet (thorough: every triple) of 25 calls "
          "with symbolic values, compared after every call. Compared after the call (also when it raised): tool active + start code + power while "
          "active, coolant mode, tool number, feed rate, distance/extrusion/feed mode, units, "
          "plane, target temperatures, every remembered non-axis move parameter.")
ASSUMPTIONS = [
    "fields the emitted program never mentioned are not compared (the interpreter knows nothing)",
    "tool power is compared only while the tool is active (tool_off() resets the tracked power)",
    "remembered X/Y/Z 'parameters' are the last call's arguments by design and are not compared "
    "(position is C01)",
    "S/F are modal words on word-only, motion-family and M3/M4 blocks; on other M-codes they are "
    "command-specific (M0 S.., M104 S.., M106 S..)",
]

SPIN_CODE = {"clockwise": "M3", "counter": "M4", "off": None}
POWER_CODE = {"constant": "M3", "dynamic": "M4", "off": None}
COOLANT_CODE = {"mist": "M7", "flood": "M8", "off": None}
UNITS_CODE = {"inches": "G20", "millimeters": "G21"}
PLANE_CODE = {"xy": "G17", "zx": "G18", "yz": "G19"}
FEEDMODE_CODE = {"1/time": "G93", "units/min": "G94", "units/rev": "G95"}


def compare(g, m, name):
    s = g.state
    if bool(s.is_tool_active) != m.tool_on:
        return V(f"{name}-tool-active-mismatch",
                 lambda: f"state.is_tool_active={s.is_tool_active}, program says tool_on={m.tool_on}")
    if m.tool_on:
        codes = [c for c in (SPIN_CODE[s.spin_mode.value], POWER_CODE[s.power_mode.value]) if c]
        if m.tool_code not in codes:
            return V(f"{name}-tool-start-code-mismatch",
                     lambda: f"program started the tool with {m.tool_code}, state reports spin_mode="
                             f"{s.spin_mode.value} power_mode={s.power_mode.value}")
        if m.power is not None and not num_eq(s.tool_power, m.power):
            return V(f"{name}-tool-power-mismatch",
                     lambda: f"program S={m.power!r}, state.tool_power={s.tool_power!r}")
    if bool(s.is_coolant_active) != m.coolant_on:
        return V(f"{name}-coolant-active-mismatch",
                 lambda: f"state.is_coolant_active={s.is_coolant_active}, program={m.coolant_on}")
    if m.coolant_on and COOLANT_CODE[s.coolant_mode.value] != m.coolant_code:
        return V(f"{name}-coolant-mode-mismatch",
                 lambda: f"program {m.coolant_code}, state.coolant_mode={s.coolant_mode.value}")
    if (not m.coolant_on) and m.coolant_code is not None and s.coolant_mode.value != "off" \
            and not s.is_coolant_active:
        return V(f"{name}-coolant-mode-stale",
                 lambda: f"coolant is off but state.coolant_mode={s.coolant_mode.value}")
    if m.tool_number is not None and s.tool_number != m.tool_number:
        return V(f"{name}-tool-number-mismatch",
                 lambda: f"program T={m.tool_number!r}, state.tool_number={s.tool_number!r}")
    if m.feed is not None and not num_eq(s.feed_rate, m.feed):
        return V(f"{name}-feed-rate-mismatch",
                 lambda: f"program F={m.feed!r}, state.feed_rate={s.feed_rate!r}")
    if (s.distance_mode.value == "relative") != m.relative or \
            (g.distance_mode.value == "relative") != m.relative:
        return V(f"{name}-distance-mode-mismatch",
                 lambda: f"program relative={m.relative}, state={s.distance_mode.value}, "
                         f"builder={g.distance_mode.value}")
    if m.extrusion_relative is not None and (s.extrusion_mode.value == "relative") != m.extrusion_relative:
        return V(f"{name}-extrusion-mode-mismatch",
                 lambda: f"program M83={m.extrusion_relative}, state={s.extrusion_mode.value}")
    if m.units is not None and UNITS_CODE[s.length_units.value] != m.units:
        return V(f"{name}-length-units-mismatch", lambda: f"program {m.units}, state={s.length_units.value}")
    if m.plane is not None and PLANE_CODE[s.plane.value] != m.plane:
        return V(f"{name}-plane-mismatch", lambda: f"program {m.plane}, state={s.plane.value}")
    if m.feed_mode is not None and FEEDMODE_CODE[s.feed_mode.value] != m.feed_mode:
        return V(f"{name}-feed-mode-mismatch", lambda: f"program {m.feed_mode}, state={s.feed_mode.value}")
    for key, val in (("hotend", s.target_hotend_temperature), ("bed", s.target_bed_temperature),
                     ("chamber", s.target_chamber_temperature)):
        if key in m.temps and not num_eq(val, m.temps[key]):
            return V(f"{name}-target-{key}-temperature-mismatch",
                     lambda: f"program {key}={m.temps[key]!r}, state={val!r}")
    for k, v in m.params.items():
        if k in ("X", "Y", "Z"):
            continue
        for src, got in (("builder", g.get_parameter(k)), ("state", s.get_parameter(k))):
            if got is None or not num_eq(got, v):
                return V(f"{name}-remembered-parameter-mismatch",
                         lambda: f"{src}.get_parameter({k!r})={got!r}, program says {v!r}")
    return None


def _make(step, tool, coolant, rel):
    def core(f, n, feed, power, e0, th, cur_tool):
        assume(feed >= 0)
        assume(power >= 0)
        assume(cur_tool >= 1)
        assume(cur_tool <= 120)
        for k in n:
            assume(k >= -2)
            assume(k <= 120)
        pre = mkpre(pos=(1.0, 2.0, 3.0), relative=rel, tool=tool, coolant=coolant, feed=feed,
                    power=power if tool else 0, params={"E": e0},
                    temps=(th, th + 1, th + 2),
                    tool_number=cur_tool, tool_swap="manual")
        g, rec = prepare(pre)
        m = machine_for(pre, rec)
        v0 = compare(g, m, "pre-state")
        if v0 is not None:
            return V("harness-pre-state-inconsistent", lambda: v0.text())
        e = attempt(step.call, g, f, n)
        try:
            m.run_text(rec.text())
        except Malformed as mf:
            return V(f"{step.name}-malformed-output", str(mf))
        reached("raised" if e is not None else "accepted")
        v = compare(g, m, step.name)
        if v is not None:
            inner = v
            return V(inner.kind, lambda: inner.text() + f" | call raised {exc_name(e)}; "
                                         f"output={rec.text()!r}; f={f!r} n={n!r}")
        return None

    sig = (step.nf, step.ni)
    if sig == (0, 0):
        def h(feed: Finite, power: Finite, e0: Finite, th: Finite, cur_tool: int):
            return core([], [], feed, power, e0, th, cur_tool)
    elif sig == (1, 0):
        def h(a: float, feed: Finite, power: Finite, e0: Finite, th: Finite, cur_tool: int):
            return core([a], [], feed, power, e0, th, cur_tool)
    elif sig == (2, 0):
        def h(a: float, b: float, feed: Finite, power: Finite, e0: Finite, th: Finite, cur_tool: int):
            return core([a, b], [], feed, power, e0, th, cur_tool)
    elif sig == (3, 0):
        def h(a: float, b: float, c: float, feed: Finite, power: Finite, e0: Finite, th: Finite,
              cur_tool: int):
            return core([a, b, c], [], feed, power, e0, th, cur_tool)
    elif sig == (0, 1):
        def h(k: int, feed: Finite, power: Finite, e0: Finite, th: Finite, cur_tool: int):
            return core([], [k], feed, power, e0, th, cur_tool)
    elif sig == (1, 1):
        def h(a: float, k: int, feed: Finite, power: Finite, e0: Finite, th: Finite, cur_tool: int):
            return core([a], [k], feed, power, e0, th, cur_tool)
    else:
        raise ValueError(step)
    return h


HIST = {
    "move(x)": lambda g, a: g.move(x=a),
    "move(y,F)": lambda g, a: g.move(y=1.5, F=a),
    "move(z,S)": lambda g, a: g.move(z=-2.5, S=a),
    "rapid(x)": lambda g, a: g.rapid(x=a),
    "move(x,E)": lambda g, a: g.move(x=3.5, E=a),
    "set_axis(E)": lambda g, a: g.set_axis(E=a),
    "relative": lambda g, a: g.set_distance_mode("relative"),
    "absolute": lambda g, a: g.set_distance_mode("absolute"),
    "tool_on": lambda g, a: g.tool_on("cw", a),
    "tool_off": lambda g, a: g.tool_off(),
    "power_on": lambda g, a: g.power_on("dynamic", a),
    "power_off": lambda g, a: g.power_off(),
    "coolant_on": lambda g, a: g.coolant_on("flood"),
    "coolant_off": lambda g, a: g.coolant_off(),
    "set_feed_rate": lambda g, a: g.set_feed_rate(a),
    "set_tool_power": lambda g, a: g.set_tool_power(a),
    "halt(bed,S)": lambda g, a: g.halt("wait-for-bed", S=a),
    "set_hotend": lambda g, a: g.set_hotend_temperature(a),
    "tool_change": lambda g, a: g.tool_change("manual", 3),
    "extrusion-rel": lambda g, a: g.set_extrusion_mode("relative"),
    "probe(z,F)": lambda g, a: g.probe("towards", z=-1.0, F=a),
    "emergency": lambda g, a: g.emergency_halt("stop"),
}


def _hooked_move(g, a, new_dict):
    """A move through a registered hook that changes F, S and E: the state must mirror the words
    that were actually emitted (the hook's), not the ones the caller passed."""
    from gscrib.params import ParamsDict

    def hook(origin, target, params, state):
        if new_dict:
            out = ParamsDict(params)
        else:
            out = params
        out["F"] = a
        out["S"] = 2.5
        out["E"] = 0.75
        return out
    with g.move_hook(hook):
        g.move(x=1.25, F=900.0, S=1.0)


HIST["hooked-move(in-place)"] = lambda g, a: _hooked_move(g, a, False)
HIST["hooked-move(new-dict)"] = lambda g, a: _hooked_move(g, a, True)
HIST["move(y,f,s)"] = lambda g, a: g.move(y=0.5, f=a, s=1.5)


def _make_history(seq):
    """A TRUE history from a freshly constructed builder (no private pre-state, so no invariant is
    assumed): after every call, accepted or rejected, the state mirrors the program so far."""
    from gscrib import GCodeBuilder
    from ..fixture import Rec

    def core(vals):
        from ..shims import TOKENS
        if MODE.symbolic:
            TOKENS.clear()
        g = GCodeBuilder(line_endings="\\n")
        rec = Rec()
        g.add_writer(rec)
        m = RefMachine(tokens())
        done = 0
        for k, (name, a) in enumerate(zip(seq, vals)):
            e = attempt(HIST[name], g, a)
            if e is not None and exc_name(e) not in ("ValueError", "ToolStateError", "CoolantStateError"):
                msg = f"{exc_name(e)}: {e}"
                return V(f"history-unexpected-exception", lambda: f"{seq[:k + 1]}: {msg}")
            try:
                text = rec.text()
                lines = split_lines(text)
                for line in lines[done:]:
                    m.run_line(line)
                done = len(lines)
            except Malformed as mf:
                return V("history-malformed-output", str(mf))
            v = compare(g, m, "history")
            if v is not None:
                inner = v
                return V(inner.kind, lambda: inner.text() + f" | after {seq[:k + 1]} with values "
                                             f"{vals[:k + 1]!r} (last call raised {exc_name(e)}); "
                                             f"output={rec.text()!r}")
        reached("accepted")
        return None

    if len(seq) == 2:
        def h(a: Finite, b: Finite):
            return core([a, b])
    else:
        def h(a: Finite, b: Finite, c: Finite):
            return core([a, b, c])
    return h


def cells(tier):
    out = []
    import itertools
    names = list(HIST)
    seqs = list(itertools.product(names, repeat=2))
    core3 = ["move(y,F)", "move(z,S)", "move(x,E)", "set_axis(E)", "tool_on", "tool_off", "power_on",
             "set_tool_power", "halt(bed,S)", "rapid(x)", "relative"]
    if tier == "quick":
        seqs += list(itertools.product(core3, repeat=3))
    else:
        seqs += list(itertools.product(names, repeat=3))
    for seq in seqs:
        out.append(Cell("history|" + ",".join(seq), _make_history(seq),
                        budget_s=120 if tier == "quick" else 400, must_reach=("accepted",),
                        entry="GCodeBuilder (history from a fresh builder)"))
    for step in STEPS:
        for tool in TOOLS:
            for coolant in COOLANTS:
                if tier == "quick" and step.group in ("motion", "modal", "halt"):
                    if (tool, coolant) not in ((None, None), (("spin", "ccw"), "mist")):
                        continue
                for rel in (False, True):
                    if rel and (tier == "quick" or step.group != "motion"):
                        if not (step.group == "motion" and tool is None and coolant is None):
                            continue
                    name = (f"{step.name}|tool={tool_label(tool)}|coolant={coolant or 'off'}|"
                            f"{'rel' if rel else 'abs'}")
                    out.append(Cell(name, _make(step, tool, coolant, rel),
                                    budget_s=120 if tier == "quick" else 400,
                                    entry=f"GCodeBuilder.{step.name.split(':')[0].split('(')[0]}"))
    return out
