"""C11 — a toolpath is the same in relative and absolute distance mode."""

from ..runner import Cell
from ..driver import Finite, assume
from .common import *  # noqa: F401,F403
from .tracer_capture import capture_forward, capture_arc_like, capture_spline, capture_arc_full
from .c01 import frame_condition

PROPERTY_ID = "C11"
FUNCTIONS = [
    "GCodeCore.move/rapid/move_absolute/rapid_absolute/absolute_mode/relative_mode",
    "GCodeCore.to_absolute/to_absolute_list/to_distance_mode/_transform_move",
    "PathTracer.arc/arc_radius/circle/helix/thread/spiral/spline/polyline (geometry before sampling)",
]
BOUNDS = ("Two builders start at the same symbolic position, one in absolute and one in relative "
          "mode, and receive the same logical toolpath (absolute waypoints, expressed as offsets "
          "for the relative one). (a) moves: cell grid entry {move, rapid, move_absolute, "
          "rapid_absolute, move inside absolute_mode()/relative_mode(), a block that switches the mode itself} x 1 or 2 waypoints; plus MIXED sequences (one entry kind per waypoint out of {move, move_absolute, rapid_absolute, mode context, bypass move inside the opposite mode context, set_axis}; all pairs, quick: 9 triples, thorough: all triples) on builders that reached their start through public calls, compared after every waypoint; solver "
          "over start and waypoints: the interpreted machine positions after every line and the "
          "tracked positions are equal. (b) tracer shapes {arc, helix, arc_radius, circle, thread, "
          "spiral, spline(2 points), polyline(2 points)} x 2D/3D: the absolute geometry handed to "
          "the sampler (start-centre and target-centre offsets, arc Z travel and path length, forwarded targets/centres/turns, "
          "spline control points) is identical in both modes for all start/target/centre values; "
          "the emission loop of parametric() (to_distance_mode + move per vertex) is run on two symbolic sample "
          "points in both modes (curve function and segment filter stubbed) and must reach exactly "
          "those vertices. Vertex-by-vertex comparison of sampled "
          "output is NOT done (numpy/scipy).")
ASSUMPTIONS = [
    "the sampler is a function of the captured absolute geometry (tracer frame condition, AST scan)",
    "all axes known at the start; identity transform",
]

BOX = 1000.0


def _box(*vals):
    for v in vals:
        assume(v >= -BOX)
        assume(v <= BOX)


def _two(o):
    """Builder A in absolute mode, builder B in relative mode, same position."""
    pa = mkpre(pos=o, relative=False)
    ga, ra = prepare(pa)
    toks_a = list(tokens().values) if MODE.symbolic else None
    pb = mkpre(pos=o, relative=True)
    if MODE.symbolic:
        from ..fixture import build
        gb, rb = build(pb, "private")   # do not clear the token table of builder A
    else:
        gb, rb = prepare(pb)
    return (pa, ga, ra), (pb, gb, rb)


def _machine_positions(pre, rec):
    m = machine_for(pre, None)
    out = []
    for line in split_lines(rec.text()):
        m.run_line(line)
        out.append(tuple(m.pos[a] for a in "XYZ"))
    return out, m


def _make_moves(kind, nway):
    def core(o, ways):
        (pa, ga, ra), (pb, gb, rb) = _two(o)
        cur = o
        for w in ways:
            off = tuple(w[i] - cur[i] for i in range(3))
            kw_abs = dict(x=w[0], y=w[1], z=w[2])
            kw_rel = dict(x=off[0], y=off[1], z=off[2])
            if kind in ("move", "rapid"):
                ea = attempt(getattr(ga, kind), **kw_abs)
                eb = attempt(getattr(gb, kind), **kw_rel)
            elif kind in ("move_absolute", "rapid_absolute"):
                ea = attempt(getattr(ga, kind), **kw_abs)
                eb = attempt(getattr(gb, kind), **kw_abs)
            elif kind == "ctx":
                def in_a():
                    with ga.relative_mode():
                        ga.move(**kw_rel)

                def in_b():
                    with gb.absolute_mode():
                        gb.move(**kw_abs)
                ea, eb = attempt(in_a), attempt(in_b)
            elif kind == "ctx-inner-switch":
                # both enter absolute_mode(), switch to relative themselves inside the block and
                # move by the offset; afterwards each must be back in its own base mode
                def in_a():
                    with ga.absolute_mode():
                        ga.set_distance_mode("relative")
                        ga.move(**kw_rel)

                def in_b():
                    with gb.absolute_mode():
                        gb.set_distance_mode("relative")
                        gb.move(**kw_rel)
                ea, eb = attempt(in_a), attempt(in_b)
            if ea is not None or eb is not None:
                msg = f"abs: {exc_name(ea)} {ea}; rel: {exc_name(eb)} {eb}"
                return V(f"{kind}-unexpected-exception", msg)
            cur = w
        try:
            posa, ma = _machine_positions(pa, ra)
            posb, mb = _machine_positions(pb, rb)
        except Malformed as mf:
            return V(f"{kind}-malformed-output", str(mf))
        fa, fb = posa[-1], posb[-1]
        for i in range(3):
            if not num_eq(fa[i], fb[i]) or not num_eq(fa[i], ways[-1][i]):
                return V(f"{kind}-machine-ends-elsewhere",
                         lambda: f"absolute run ends at {fa!r}, relative run at {fb!r}, waypoint "
                                 f"{ways[-1]!r}; outputs {ra.text()!r} / {rb.text()!r}")
            if not num_eq(ga.position[i], gb.position[i]):
                return V(f"{kind}-tracked-positions-differ",
                         lambda: f"{tuple(ga.position)!r} vs {tuple(gb.position)!r}")
        if gb.distance_mode.value != "relative" or ga.distance_mode.value != "absolute":
            return V(f"{kind}-mode-not-preserved", lambda: f"{ga.distance_mode} {gb.distance_mode}")
        reached("compared")
        return None

    if nway == 1:
        def h(ox: Finite, oy: Finite, oz: Finite, ax: Finite, ay: Finite, az: Finite):
            return core((ox, oy, oz), [(ax, ay, az)])
    else:
        def h(ox: Finite, oy: Finite, ax: Finite, ay: Finite, bx: Finite, by: Finite):
            return core((ox, oy, 1.0), [(ax, ay, 2.0), (bx, by, -3.0)])
    return h


MIXED = ["move", "move_absolute", "rapid_absolute", "ctx", "ctx-bypass", "set_axis"]


def _make_mixed(kinds):
    """One entry kind PER waypoint, on builders that reached their start through public calls (a
    true history: fresh builder, move to the start, mode switch). ctx-bypass = an absolute-bypass
    move inside the opposite mode's context manager; set_axis = G92 to the waypoint's numbers
    (both machines are renamed alike)."""
    from gscrib import GCodeBuilder
    from ..fixture import Rec

    def core(o, ways):
        if MODE.symbolic:
            from ..shims import TOKENS
            TOKENS.clear()
        built = []
        for rel in (False, True):
            g = GCodeBuilder(line_endings="\\n")
            rec = Rec()
            g.add_writer(rec)
            g.move(x=o[0], y=o[1], z=o[2])
            if rel:
                g.set_distance_mode("relative")
            built.append((g, rec))
        (ga, ra), (gb, rb) = built
        cur = o
        for kind, w in zip(kinds, ways):
            off = tuple(w[i] - cur[i] for i in range(3))
            kw_abs = dict(x=w[0], y=w[1], z=w[2])
            kw_rel = dict(x=off[0], y=off[1], z=off[2])
            if kind == "move":
                ea, eb = attempt(ga.move, **kw_abs), attempt(gb.move, **kw_rel)
            elif kind in ("move_absolute", "rapid_absolute"):
                ea, eb = attempt(getattr(ga, kind), **kw_abs), attempt(getattr(gb, kind), **kw_abs)
            elif kind == "set_axis":
                ea, eb = attempt(ga.set_axis, **kw_abs), attempt(gb.set_axis, **kw_abs)
            elif kind == "ctx":
                def in_a():
                    with ga.relative_mode():
                        ga.move(**kw_rel)

                def in_b():
                    with gb.absolute_mode():
                        gb.move(**kw_abs)
                ea, eb = attempt(in_a), attempt(in_b)
            else:   # ctx-bypass
                def in_a():
                    with ga.relative_mode():
                        ga.move_absolute(**kw_abs)

                def in_b():
                    with gb.absolute_mode():
                        gb.rapid_absolute(**kw_abs)
                ea, eb = attempt(in_a), attempt(in_b)
            if ea is not None or eb is not None:
                msg = f"abs: {exc_name(ea)} {ea}; rel: {exc_name(eb)} {eb}"
                return V("mixed-unexpected-exception", lambda: f"{kind}: {msg}")
            cur = w
            # after EVERY waypoint: both machines and both builders are at the waypoint
            ctx = lambda: (f"kinds {kinds!r} start {o!r} waypoints {ways!r}: outputs {ra.text()!r} / "  # noqa: E731
                           f"{rb.text()!r}")
            try:
                ma, mb = RefMachine(tokens()), RefMachine(tokens())
                for line in split_lines(ra.text()):
                    ma.run_line(line)
                for line in split_lines(rb.text()):
                    mb.run_line(line)
            except Malformed as mf:
                return V("mixed-malformed-output", str(mf))
            for i, a in enumerate("XYZ"):
                if not num_eq(ma.pos[a], w[i]) or not num_eq(mb.pos[a], w[i]):
                    return V("mixed-machine-not-at-the-waypoint",
                             lambda: f"after {kind}: axis {a}: absolute run at {ma.pos[a]!r}, relative run "
                                     f"at {mb.pos[a]!r}, waypoint {w[i]!r}; {ctx()}")
                if not num_eq(ga.position[i], w[i]) or not num_eq(gb.position[i], w[i]):
                    return V("mixed-tracked-position-not-at-the-waypoint",
                             lambda: f"after {kind}: {tuple(ga.position)!r} vs {tuple(gb.position)!r}; {ctx()}")
            if gb.distance_mode.value != "relative" or ga.distance_mode.value != "absolute" or \
                    ma.relative or not mb.relative:
                return V("mixed-mode-not-preserved",
                         lambda: f"after {kind}: builders {ga.distance_mode} {gb.distance_mode}, machines "
                                 f"relative={ma.relative}/{mb.relative}; {ctx()}")
        reached("compared")
        return None

    if len(kinds) == 2:
        def h(ox: Finite, oy: Finite, ax: Finite, ay: Finite, bx: Finite, by: Finite):
            return core((ox, oy, 1.0), [(ax, ay, 2.0), (bx, by, -3.0)])
    else:
        def h(ox: Finite, ax: Finite, ay: Finite, bx: Finite, cx: Finite):
            return core((ox, 0.5, 1.0), [(ax, ay, 2.0), (bx, -1.25, -3.0), (cx, 2.75, 0.5)])
    return h


def _make_shape(shape, dims):
    def h(ox: Finite, oy: Finite, oz: Finite, tx: Finite, ty: Finite, tz: Finite, cx: Finite,
          cy: Finite, r: Finite):
        _box(ox, oy, oz, tx, ty, tz, cx, cy)
        o = (ox, oy, oz)
        (pa, ga, ra), (pb, gb, rb) = _two(o)
        t_abs = (tx, ty, tz)[:dims]
        t_rel = tuple(t_abs[i] - o[i] for i in range(dims))
        c = (cx, cy)   # centres are offsets from the current position in both modes

        def same(x, y):
            return num_eq(x, y)

        if shape in ("arc", "helix"):
            call = (lambda t: (lambda g: g.trace.arc(t, c))) if shape == "arc" else \
                (lambda t: (lambda g: g.trace.helix(t, c, 3)))
            ca = capture_arc_like(ga, call(t_abs))
            cb = capture_arc_like(gb, call(t_rel))
            if len(ca) != 2 or len(cb) != 2:
                return V(f"{shape}-geometry-not-captured", lambda: f"{ca!r} {cb!r}")
            for (a1, a2), (b1, b2) in zip(ca, cb):
                if not (same(a1, b1) and same(a2, b2)):
                    return V(f"{shape}-geometry-differs-between-modes",
                             lambda: f"absolute mode {ca!r}, relative mode {cb!r} (start {o!r}, "
                                     f"target {t_abs!r}, centre offset {c!r})")
        elif shape == "arc-z":
            try:
                ra_, ca_ = capture_arc_full(ga, lambda g: g.trace.arc(t_abs, c))
                rb_, cb_ = capture_arc_full(gb, lambda g: g.trace.arc(t_rel, c))
            except Exception as e:  # noqa: BLE001
                msg = f"{exc_name(e)}: {e}"
                return V("arc-unexpected-exception", msg)
            if len(ra_.hypots) != 3 or len(rb_.hypots) != 3:
                return V("arc-geometry-not-captured", lambda: f"{ra_.hypots!r} {rb_.hypots!r}")
            for (a1, a2), (b1, b2) in zip(ra_.hypots, rb_.hypots):
                if not (same(a1, b1) and same(a2, b2)):
                    return V("arc-geometry-differs-between-modes",
                             lambda: f"absolute mode {ra_.hypots!r}, relative mode {rb_.hypots!r} "
                                     f"(start {o!r}, target {t_abs!r})")
        elif shape == "arc_radius":
            assume(r != 0)
            ca = capture_arc_like(ga, lambda g: g.trace.arc_radius(t_abs, r), n_hypot=1)
            cb = capture_arc_like(gb, lambda g: g.trace.arc_radius(t_rel, r), n_hypot=1)
            if len(ca) != 1 or len(cb) != 1:
                return V("arc_radius-geometry-not-captured", lambda: f"{ca!r} {cb!r}")
            if not (same(ca[0][0], cb[0][0]) and same(ca[0][1], cb[0][1])):
                return V("arc_radius-chord-differs-between-modes", lambda: f"{ca!r} vs {cb!r}")
            if not (same(ca[0][0], t_abs[0] - ox) and same(ca[0][1], t_abs[1] - oy)):
                return V("arc_radius-chord-is-not-target-minus-start", lambda: f"{ca!r}")
        elif shape == "circle":
            fa = capture_forward(ga, "arc", lambda g: g.trace.circle(c))
            fb = capture_forward(gb, "arc", lambda g: g.trace.circle(c))
            if len(fa) != 1 or len(fb) != 1:
                return V("circle-not-forwarded-once", lambda: f"{fa!r} {fb!r}")
            ta, tb = ga.to_absolute(fa[0][0][0]), gb.to_absolute(fb[0][0][0])
            for i in range(3):
                if not same(ta[i], tb[i]) or not same(ta[i], o[i]):
                    return V("circle-target-differs-between-modes",
                             lambda: f"absolute target {tuple(ta)!r} vs {tuple(tb)!r}, start {o!r}")
            for i in range(2):
                if not same(fa[0][0][1][i], fb[0][0][1][i]):
                    return V("circle-centre-differs-between-modes", lambda: f"{fa!r} {fb!r}")
        elif shape in ("thread", "spiral"):
            if shape == "thread":
                fa = capture_forward(ga, "helix", lambda g: g.trace.thread(t_abs, 1.0))
                fb = capture_forward(gb, "helix", lambda g: g.trace.thread(t_rel, 1.0))
            else:
                fa = capture_forward(ga, "helix", lambda g: g.trace.spiral(t_abs, 2))
                fb = capture_forward(gb, "helix", lambda g: g.trace.spiral(t_rel, 2))
            if len(fa) != 1 or len(fb) != 1:
                return V(f"{shape}-not-forwarded-once", lambda: f"{fa!r} {fb!r}")
            (aa, _), (ab, _) = fa[0], fb[0]
            ta, tb = ga.to_absolute(aa[0]), gb.to_absolute(ab[0])
            for i in range(3):
                if not same(ta[i], tb[i]):
                    return V(f"{shape}-target-differs-between-modes",
                             lambda: f"{tuple(ta)!r} vs {tuple(tb)!r}")
            for i in range(2):
                if not same(aa[1][i] or 0, ab[1][i] or 0):
                    return V(f"{shape}-centre-differs-between-modes", lambda: f"{aa[1]!r} vs {ab[1]!r}")
            if aa[2] != ab[2]:
                return V(f"{shape}-turns-differ-between-modes", lambda: f"{aa[2]!r} vs {ab[2]!r}")
        elif shape == "spline":
            p2 = (cx, cy, r)[:dims]     # second control point (absolute)
            abs_pts = [t_abs, p2]
            rel_pts = [t_rel, tuple(p2[i] - t_abs[i] for i in range(dims))]
            sa = capture_spline(ga, lambda g: g.trace.spline(abs_pts))
            sb = capture_spline(gb, lambda g: g.trace.spline(rel_pts))
            if len(sa) != 3 or len(sb) != 3:
                # fewer than 2 distinct control points: both must refuse alike
                if len(sa) != len(sb):
                    return V("spline-accepted-in-one-mode-only", lambda: f"{sa!r} {sb!r}")
                reached("compared")
                return None
            for (tha, va), (thb, vb) in zip(sa, sb):
                if len(va) != len(vb):
                    return V("spline-control-count-differs", lambda: f"{va!r} {vb!r}")
                for x, y in zip(va, vb):
                    if not same(x, y):
                        return V("spline-control-points-differ-between-modes",
                                 lambda: f"{sa!r} vs {sb!r}")
        elif shape == "polyline":
            # second vertex: one symbolic coordinate only (keeps the zero-test case split tractable)
            p2 = (cx, 5.0, -2.0)[:dims]
            abs_pts = [t_abs, p2]
            rel_pts = [t_rel, tuple(p2[i] - t_abs[i] for i in range(dims))]
            ea = attempt(ga.trace.polyline, abs_pts)
            eb = attempt(gb.trace.polyline, rel_pts)
            if ea is not None or eb is not None:
                msg = f"{exc_name(ea)} / {exc_name(eb)}"
                return V("polyline-unexpected-exception", msg)
            try:
                posa, _ = _machine_positions(pa, ra)
                posb, _ = _machine_positions(pb, rb)
            except Malformed as mf:
                return V("polyline-malformed-output", str(mf))
            if len(posa) != len(posb):
                return V("polyline-vertex-count-differs", lambda: f"{ra.text()!r} {rb.text()!r}")
            for va, vb in zip(posa, posb):
                for i in range(3):
                    if not same(va[i], vb[i]):
                        return V("polyline-vertices-differ-between-modes",
                                 lambda: f"{posa!r} vs {posb!r}")
        reached("compared")
        return None
    return h


def _make_parametric(with_f):
    """The emission loop of PathTracer.parametric() on symbolic vertices: the curve function
    returns two symbolic sample points and the segment filter is replaced by the identity
    (both are numpy code); what runs for real is `to_distance_mode` + `move` per vertex."""
    def h(ox: Finite, oy: Finite, ax: Finite, ay: Finite, bx: Finite, by: Finite, f: Finite):
        assume(f >= 0)
        o = (ox, oy, 1.0)
        (pa, ga, ra), (pb, gb, rb) = _two(o)
        verts = [(ax, ay, 2.0), (bx, by, -3.0)]
        kw = {"F": f} if with_f else {}
        for g in (ga, gb):
            g.trace._filter_segments = lambda pts: pts
            e = attempt(g.trace.parametric, lambda thetas: verts, 10.0, **kw)
            if e is not None:
                msg = f"{exc_name(e)}: {e}"
                return V("parametric-unexpected-exception", msg)
        try:
            posa, ma = _machine_positions(pa, ra)
            posb, mb = _machine_positions(pb, rb)
        except Malformed as mf:
            return V("parametric-malformed-output", str(mf))
        if len(posa) != 2 or len(posb) != 2:
            return V("parametric-wrong-number-of-moves", lambda: f"{ra.text()!r} / {rb.text()!r}")
        for k in range(2):
            for i in range(3):
                if not num_eq(posa[k][i], verts[k][i]) or not num_eq(posb[k][i], verts[k][i]):
                    return V("parametric-vertex-not-reached",
                             lambda: f"vertex {k}: absolute run {posa[k]!r}, relative run {posb[k]!r}, "
                                     f"sample {verts[k]!r}; outputs {ra.text()!r} / {rb.text()!r}")
        for g, m in ((ga, ma), (gb, mb)):
            for i in range(3):
                if not num_eq(g.position[i], verts[1][i]):
                    return V("parametric-tracked-position-wrong", lambda: f"{tuple(g.position)!r}")
            if with_f and (m.feed is None or not num_eq(m.feed, f)):
                return V("parametric-parameters-not-forwarded", lambda: f"F={m.feed!r} expected {f!r}")
        reached("compared")
        return None
    return h


def validate():
    fc = frame_condition()
    if fc:
        print(f"NOTE tracer frame condition no longer holds syntactically: {fc[:3]}")
    return {"checked": 1, "failures": [], "frame_condition_violations": fc}


def cells(tier):
    out = []
    budget = 150 if tier == "quick" else 600
    for kind in ("move", "rapid", "move_absolute", "rapid_absolute", "ctx", "ctx-inner-switch"):
        for nway in (1, 2):
            out.append(Cell(f"moves|{kind}|waypoints={nway}", _make_moves(kind, nway), budget_s=budget,
                            must_reach=("compared",), entry=f"GCodeBuilder.{kind}"))
    import itertools
    seqs = list(itertools.product(MIXED, repeat=2))
    if tier == "quick":
        seqs += [("move", x, "move") for x in MIXED] + [("ctx-bypass", x, "ctx") for x in MIXED[:3]]
    else:
        seqs += list(itertools.product(MIXED, repeat=3))
    for seq in seqs:
        out.append(Cell("mixed|" + ",".join(seq), _make_mixed(seq), budget_s=budget,
                        must_reach=("compared",), entry="GCodeBuilder (mixed entry kinds, true history)"))
    for with_f in (False, True):
        out.append(Cell(f"parametric-emission|F={with_f}", _make_parametric(with_f), budget_s=budget,
                        must_reach=("compared",), entry="PathTracer.parametric (emission loop)"))
    for shape in ("arc", "arc-z", "helix", "arc_radius", "circle", "thread", "spiral", "spline", "polyline"):
        for dims in (2, 3):
            out.append(Cell(f"shape|{shape}|{dims}d", _make_shape(shape, dims), budget_s=budget,
                            must_reach=("compared",), entry=f"PathTracer.{shape}"))
    return out
