"""C13 — transform states are saved, restored and inverted exactly."""

import itertools
import math

from ..runner import Cell
from ..driver import Finite, assume
from ..mode import MODE, V, reached

PROPERTY_ID = "C13"
FUNCTIONS = [
    "CoordinateTransformer.save_state/restore_state/delete_state/_copy_state/_revert_state",
    "CoordinateTransformer.translate/rotate/scale/reflect/mirror/set_pivot/chain_transform",
    "CoordinateTransformer.apply_transform/reverse_transform", "Transform.apply/reverse/_chain_matrix",
    "GCodeCore.current_transform/named_transform", "Point.to_vector/from_vector",
]
BOUNDS = ("Histories are ENUMERATED, not solved: every sequence of up to 2 operations over a 20-letter "
          "alphabet plus length 3 over a 10-letter core alphabet (quick); up to 3 over the full and "
          "4 over the core alphabet (thorough); plus every 'set_pivot, X, Y, rotate|scale' with X, Y "
          "state operations. Alphabet {translate, rotate z/x, uniform and non-uniform "
          "scale, reflect, mirror, set_pivot, save, save('a'), restore, restore('a'), delete('a'), "
          "enter/leave current_transform(), named_transform('a'), raise inside a context; bodies that pop below the entry depth} with "
          "concrete parameters, run against an independent stack-of-matrices model. Solver over: "
          "the probe point p (all reals in [-1000,1000]^3): at the end of the sequence apply(p) equals "
          "the model's image and reverse(apply(p)) equals p (tolerance 3e-6 / 3e-3); after every "
          "single operation the concrete matrix, pivot and stack depth are compared with the model "
          "and rotate/scale must keep the pivot fixed. One cell = one sequence. The solver's share is modest "
          "(affine maps with concrete matrices); the history bound is the real limit.")
ASSUMPTIONS = [
    "operation parameters are concrete (the matrices come from numpy/scipy and cannot be symbolic)",
    "Point.to_vector's np.array is shimmed by a pure-Python vector (real, concrete matrix applied)",
]

TOL = 1e-9


# ---------------------------------------------------------------- model ----
def _eye():
    return [[1.0 if i == j else 0.0 for j in range(4)] for i in range(4)]


def _mul(a, b):
    return [[sum(a[i][k] * b[k][j] for k in range(4)) for j in range(4)] for i in range(4)]


def _trans(x, y, z):
    m = _eye()
    m[0][3], m[1][3], m[2][3] = x, y, z
    return m


def _rot(deg, axis):
    c, s = math.cos(math.radians(deg)), math.sin(math.radians(deg))
    m = _eye()
    if axis == "z":
        m[0][0], m[0][1], m[1][0], m[1][1] = c, -s, s, c
    elif axis == "x":
        m[1][1], m[1][2], m[2][1], m[2][2] = c, -s, s, c
    else:
        m[0][0], m[0][2], m[2][0], m[2][2] = c, s, -s, c
    return m


def _scale(sx, sy, sz):
    m = _eye()
    m[0][0], m[1][1], m[2][2] = sx, sy, sz
    return m


def _reflect(n):
    l = math.sqrt(sum(v * v for v in n))
    n = [v / l for v in n]
    m = _eye()
    for i in range(3):
        for j in range(3):
            m[i][j] = (1.0 if i == j else 0.0) - 2 * n[i] * n[j]
    return m


class Model:
    """Independent model: current (matrix, pivot), a stack and named immutable snapshots."""

    def __init__(self):
        self.m, self.pivot = _eye(), (0.0, 0.0, 0.0)
        self.stack, self.named = [], {}

    def chain(self, x):
        px, py, pz = self.pivot
        self.m = _mul(_mul(_mul(_trans(px, py, pz), x), _trans(-px, -py, -pz)), self.m)

    def snapshot(self):
        return ([row[:] for row in self.m], self.pivot)

    def full(self):
        return (self.snapshot(), [([r[:] for r in m], p) for m, p in self.stack])

    def revert(self, full):
        (m, p), stack = full
        self.m, self.pivot = [r[:] for r in m], p
        self.stack = [([r[:] for r in mm], pp) for mm, pp in stack]

    def image(self, p):
        return tuple(sum(self.m[i][j] * v for j, v in enumerate((p[0], p[1], p[2], 1.0)))
                     for i in range(3))


# ----------------------------------------------------------- operations ----
OPS = ["translate", "rotate-z", "rotate-x", "scale", "scale-xyz", "scale-vp", "reflect", "mirror",
       "pivot", "save", "save-a", "restore", "restore-a", "delete-a", "ctx", "ctx-named",
       "ctx-raise", "ctx-pop", "ctx-named-pop", "ctx-raise-pop", "ctx-pivot", "pivot2", "pivot-z", "pivot-x"]
# bodies of the context-manager operations
BODIES = {
    "ctx": ["translate", "rotate-z", "save", "restore"],
    "ctx-named": ["translate", "rotate-z", "save", "restore"],
    "ctx-raise": ["translate", "rotate-z"],
    "ctx-pop": ["restore", "translate"],            # pops below the entry depth, then transforms
    "ctx-named-pop": ["restore", "rotate-z", "save-a"],
    "ctx-raise-pop": ["restore", "scale"],
    "ctx-pivot": ["pivot", "rotate-z"],             # moves the pivot inside the body
}


class Boom(Exception):
    pass


def entry_named_keys(model, entry):
    return model.named.keys() if not hasattr(model, "_named_at") else model._named_at


def apply_op(op, g, model, after):
    """Run one operation on the real transformer and the model. Returns (real_exc, model_exc)."""
    t = g.transform

    def both(real, mod):
        re = me = None
        try:
            real()
        except Exception as e:  # noqa: BLE001
            re = type(e).__name__
        try:
            mod()
        except Exception as e:  # noqa: BLE001
            me = type(e).__name__
        return re, me

    def m_restore():
        if not model.stack:
            raise IndexError
        model.m, model.pivot = model.stack.pop()

    def m_restore_a():
        m, p = model.named["a"]
        model.m, model.pivot = [r[:] for r in m], p

    if op == "translate":
        return both(lambda: t.translate(5.0, -2.0, 1.0), lambda: model.chain(_trans(5.0, -2.0, 1.0)))
    if op == "rotate-z":
        return both(lambda: t.rotate(90.0, "z"), lambda: model.chain(_rot(90.0, "z")))
    if op == "rotate-x":
        return both(lambda: t.rotate(30.0, "x"), lambda: model.chain(_rot(30.0, "x")))
    if op == "scale":
        return both(lambda: t.scale(2.0), lambda: model.chain(_scale(2.0, 2.0, 2.0)))
    if op == "scale-vp":  # volume preserving, not orthogonal (det = 1)
        return both(lambda: t.scale(2.0, 0.5), lambda: model.chain(_scale(2.0, 0.5, 1.0)))
    if op == "scale-xyz":
        return both(lambda: t.scale(2.0, 0.5, 4.0), lambda: model.chain(_scale(2.0, 0.5, 4.0)))
    if op == "reflect":
        return both(lambda: t.reflect([1.0, 1.0, 0.0]), lambda: model.chain(_reflect([1.0, 1.0, 0.0])))
    if op == "mirror":
        return both(lambda: t.mirror("xy"), lambda: model.chain(_reflect([0.0, 0.0, 1.0])))
    if op == "pivot":
        return both(lambda: t.set_pivot((1.0, -1.0, 2.0)),
                    lambda: setattr(model, "pivot", (1.0, -1.0, 2.0)))
    if op == "pivot2":
        return both(lambda: t.set_pivot((-3.0, 0.5, 1.0)),
                    lambda: setattr(model, "pivot", (-3.0, 0.5, 1.0)))
    if op == "pivot-z":     # a pivot on one coordinate axis only
        return both(lambda: t.set_pivot((0.0, 0.0, 5.0)), lambda: setattr(model, "pivot", (0.0, 0.0, 5.0)))
    if op == "pivot-x":
        return both(lambda: t.set_pivot((4.0, 0.0, 0.0)), lambda: setattr(model, "pivot", (4.0, 0.0, 0.0)))
    if op == "save":
        return both(lambda: t.save_state(), lambda: model.stack.append(model.snapshot()))
    if op == "save-a":
        return both(lambda: t.save_state("a"), lambda: model.named.__setitem__("a", model.snapshot()))
    if op == "restore":
        return both(lambda: t.restore_state(), m_restore)
    if op == "restore-a":
        return both(lambda: t.restore_state("a"), m_restore_a)
    if op == "delete-a":
        return both(lambda: t.delete_state("a"), lambda: model.named.pop("a"))
    if op in BODIES:
        entry = model.full()
        model._named_at = set(model.named.keys())
        named_entry = op.startswith("ctx-named")
        raising = op.startswith("ctx-raise")
        re = me = None
        inner_v = []
        try:
            cm = g.named_transform("a") if named_entry else g.current_transform()
            with cm:
                if named_entry:
                    m_restore_a()
                for inner in BODIES[op]:
                    r = apply_op(inner, g, model, after)
                    if r[0] != r[1]:
                        inner_v.append((inner, r))
                        break
                    if r[0] is not None:
                        break  # both raised the same error inside the body: leave the context
                    v = after(f"{op}/{inner}")
                    if v is not None:
                        inner_v.append(v)
                if raising:
                    raise Boom()
        except Boom:
            pass
        except Exception as e:  # noqa: BLE001
            re = type(e).__name__
        if named_entry and "a" not in entry_named_keys(model, entry):
            me = "KeyError"
        if me is None or re is None:
            model.revert(entry)
        for x in inner_v:
            if isinstance(x, V):
                return ("inner", x)
            return ("inner", V("context-body-exception-mismatch", f"{x!r}"))
        return re, me
    raise ValueError(op)


def _matrix_close(real, model_m, tol=1e-9):
    rows = real.tolist()
    return all(abs(rows[i][j] - model_m[i][j]) <= tol * (1 + abs(model_m[i][j]))
               for i in range(4) for j in range(4))


def _make(seq):
    from gscrib import GCodeCore

    def h(px: Finite, py: Finite, pz: Finite):
        p = (px, py, pz)
        for c in p:
            assume(c >= -1000.0)
            assume(c <= 1000.0)
        bound = TOL * 3001
        rbound = 1e-6 * 3001
        g = GCodeCore()
        model = Model()
        done = []

        def after(label):
            # concrete comparison after every operation (also inside context bodies)
            cur = g.transform._current_transform
            if not _matrix_close(cur._matrix, model.m):
                return V("matrix-differs-from-model",
                         lambda: f"after {done + [label]}: real {cur._matrix.tolist()!r}, model {model.m!r}")
            if tuple(cur._pivot) != tuple(model.pivot):
                return V("pivot-differs-from-model",
                         lambda: f"after {done + [label]}: real pivot {tuple(cur._pivot)!r}, model {model.pivot!r}")
            # saved states are immutable snapshots: stack entries and named states match the model
            # (observable through restore_state; compared here so that a corruption is seen at once)
            real_stack = g.transform._transforms_stack
            if len(real_stack) == len(model.stack):
                for k, (tr, (mm, mp)) in enumerate(zip(real_stack, model.stack)):
                    if not _matrix_close(tr._matrix, mm) or tuple(tr._pivot) != tuple(mp):
                        return V("saved-stack-entry-differs-from-model",
                                 lambda: f"after {done + [label]}: stack[{k}] real {tr._matrix.tolist()!r} "
                                         f"model {mm!r}")
            for name, (mm, mp) in model.named.items():
                tr = g.transform._named_transforms.get(name)
                if tr is None or not _matrix_close(tr._matrix, mm) or tuple(tr._pivot) != tuple(mp):
                    return V("named-state-differs-from-model",
                             lambda: f"after {done + [label]}: named[{name!r}] differs from the snapshot taken")
            inv = cur._inverse.tolist()
            mat = cur._matrix.tolist()
            for i in range(4):
                for j in range(4):
                    v = sum(inv[i][k] * mat[k][j] for k in range(4))
                    if abs(v - (1.0 if i == j else 0.0)) > 1e-7:
                        return V("cached-inverse-is-not-the-inverse",
                                 lambda: f"after {done + [label]}: inverse*matrix != I ({inv!r} x {mat!r})")
            return None

        for op in seq:
            pivot = model.pivot
            fixed_before = None
            if op in ("rotate-z", "rotate-x", "scale", "scale-xyz", "scale-vp"):
                fixed_before = g.transform.reverse_transform(pivot)
            re, me = apply_op(op, g, model, after)
            if re == "inner":
                return me
            if re != me:
                return V("exception-differs-from-model",
                         lambda: f"sequence {done + [op]}: real raised {re}, model {me}")
            done.append(op)
            if re is not None:
                break
            if fixed_before is not None:
                img = g.transform.apply_transform(fixed_before)
                for a, b in zip(img, pivot):
                    if abs(a - b) > 1e-6:
                        return V("pivot-not-fixed",
                                 lambda: f"after {done}: pivot {pivot!r} moved to {tuple(img)!r}")
            v = after(op)
            if v is not None:
                return v
            if len(g.transform._transforms_stack) != len(model.stack):
                return V("stack-depth-differs-from-model",
                         lambda: f"after {done}: real {len(g.transform._transforms_stack)}, "
                                 f"model {len(model.stack)}")
        # solver-decided: for ALL p the real apply()/reverse() agree with the model
        img = g.transform.apply_transform(p)
        want = model.image(p)
        for a, b in zip(img, want):
            d = a - b
            if d > bound or -d > bound:
                return V("apply-differs-from-model",
                         lambda: f"after {done}: apply({p!r}) = {tuple(img)!r}, model says {want!r}")
        back = g.transform.reverse_transform(img)
        for a, b in zip(back, p):
            d = a - b
            if d > rbound or -d > rbound:
                return V("reverse-of-apply-is-not-identity",
                         lambda: f"after {done}: reverse(apply({p!r})) = {tuple(back)!r}")
        reached("end")
        return None

    return h


CORE = ["translate", "scale-vp", "pivot", "save", "save-a", "restore", "restore-a", "ctx-named-pop",
        "ctx-raise", "ctx-pop"]


def cells(tier):
    seqs = [(a,) for a in OPS] + [(a, b) for a in OPS for b in OPS]
    # a non-zero pivot carried through save/restore/context operations must still be the fixed
    # point of the next rotation or scaling
    carriers = ["save", "save-a", "restore", "restore-a", "ctx", "ctx-named", "ctx-raise", "ctx-pop"]
    for x in carriers:
        for y in carriers:
            for last in ("rotate-z", "scale-xyz"):
                seqs.append(("pivot", x, y, last))
    # a pivot set while a snapshot is alive must not leak into the snapshot: after the snapshot is
    # back, the next pivoted operation turns about the snapshot's own pivot
    for x in ("save", "save-a", "pivot,save", "pivot,save-a"):
        for y in ("restore", "restore-a", "ctx-named"):
            for last in ("rotate-z", "scale-xyz", "reflect"):
                for mid in ("pivot2", "ctx-pivot", "translate,pivot2"):
                    seqs.append(tuple(x.split(",")) + tuple(mid.split(",")) + (y, last))
    if tier == "quick":
        seqs += list(itertools.product(CORE, repeat=3))
    else:
        seqs += list(itertools.product(OPS, repeat=3))
        seqs += list(itertools.product(CORE, repeat=4))
    return [Cell("seq=" + ",".join(s), _make(s), budget_s=120 if tier == "quick" else 600,
                 must_reach=("end",), entry="CoordinateTransformer / GCodeCore contexts")
            for s in seqs]
