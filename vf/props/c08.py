"""C08 — every emitted line is one well-formed block with faithful numbers."""

import re

from ..runner import Cell
from ..driver import Finite, assume
from ..mode import MODE, V, reached
from ..shims import TOKENS
from ..fixture import Rec
from ..refmachine import BRACKETS

PROPERTY_ID = "C08"
FUNCTIONS = [
    "DefaultFormatter.number/parameters/command/comment/line/set_decimal_places/set_axis_label/"
    "set_line_endings/set_comment_symbols", "GCodeCore.write", "GCodeBuilder._get_statement",
    "GCodeBuilder.set_feed_rate/set_tool_power/tool_on/power_on/set_fan_speed/set_*_temperature/"
    "sleep/move/rapid/move_absolute/probe/set_axis/auto_home/halt/tool_change",
]
BOUNDS = ("STRUCTURE of every line, numeric rendering under contract. Cell grid: 28 emitting call "
          "shapes (some with a user comment=) (incl. int arguments, and numpy scalars np.float32/np.float16/np.int64 as concrete "
          "enumerated values) x formatter configuration {decimal places 0,1,5,8,12} x comment style "
          "{;, (, [} x line ending {LF, CRLF} x axis relabelling {default, X->A Y->B Z->U} x how the "
          "configuration was reached {constructor, a default builder that already emitted lines and "
          "is then reconfigured through the formatter setters} (quick: 8 configurations). Plus two-builder cells: two builders with different "
          "configurations alive at once emit the same symbolic values alternately; each line follows "
          "its own builder's configuration. Solver over: all numeric arguments (reals, NaN, +-inf; ints). Checked: "
          "the output is whole lines each ending in exactly the configured terminator; at most one "
          "comment, last; every other item is an address word LETTERS+payload; each numeric "
          "payload is either the literal 0 -- allowed only when |requested value| <= half a unit "
          "of the last decimal place -- or came from the one sanctioned numpy call with precision "
          "== configured decimal places, fractional, unique, trim '-' on exactly the requested "
          "value; the words present are exactly the expected ones; non-finite values raise "
          "ValueError and emit nothing. NOT decided: that numpy's C code rounds within half a unit "
          "and never prints an exponent (stubbed contract).")
ASSUMPTIONS = [
    "np.format_float_positional(x, precision=dp, unique=True, fractional=True, trim='-', "
    "sign=False) renders x as a plain signed decimal correctly rounded to dp places (contract of "
    "the stubbed C call); concrete replays use the real numpy",
    "G/M/T code words are literals from the instruction table",
]


def _cfg_builder(cfg):
    from gscrib import GCodeBuilder
    dp, style, ending, relabel, via = cfg
    kw = dict(decimal_places=dp, comment_symbols=style,
              line_endings=ending.encode("unicode-escape").decode("ascii"))
    if relabel:
        kw.update(x_axis="A", y_axis="B", z_axis="U")
    if via == "switch":
        # a default builder that has already emitted numbers, words and comments is RECONFIGURED
        # through the formatter's setters: nothing may remain from the first configuration
        g = GCodeBuilder()
        rec = Rec()
        g.add_writer(rec)
        g.comment("first (style) ; text")
        g.move(x=0.125, y=-7.0625, F=1200.5, comment="warm up")
        g.set_distance_mode("absolute")
        g.format.set_decimal_places(dp)
        g.format.set_comment_symbols(style)
        g.format.set_line_endings(kw["line_endings"])
        if relabel:
            for axis, label in (("x", "A"), ("y", "B"), ("z", "U")):
                g.format.set_axis_label(axis, label)
        rec.clear()
        return g, rec
    g = GCodeBuilder(**kw)
    rec = Rec()
    g.add_writer(rec)
    return g, rec


# name -> (call(g, a, b, n), expected {label: value or ('int', n)}, numeric kinds)
def _emitters():
    import numpy as np
    E = {}
    E["set_feed_rate"] = (lambda g, a, b, n: g.set_feed_rate(a), lambda a, b, n: {"F": a}, "f")
    E["set_tool_power"] = (lambda g, a, b, n: g.set_tool_power(a), lambda a, b, n: {"S": a}, "f")
    E["tool_on"] = (lambda g, a, b, n: g.tool_on("ccw", a), lambda a, b, n: {"S": a, "M": "M04"}, "f")
    E["power_on"] = (lambda g, a, b, n: g.power_on("constant", a), lambda a, b, n: {"S": a, "M": "M03"}, "f")
    E["set_fan_speed"] = (lambda g, a, b, n: g.set_fan_speed(a, n),
                          lambda a, b, n: {"P": ("int", n), "S": a, "M": "M106"}, "fn")
    E["set_bed_temperature"] = (lambda g, a, b, n: g.set_bed_temperature(a),
                                lambda a, b, n: {"S": a, "M": "M140"}, "f")
    E["set_hotend_temperature"] = (lambda g, a, b, n: g.set_hotend_temperature(a),
                                   lambda a, b, n: {"S": a, "M": "M104"}, "f")
    E["sleep"] = (lambda g, a, b, n: g.sleep(a), lambda a, b, n: {"P": a, "G": "G04"}, "f")
    E["move(x,F)"] = (lambda g, a, b, n: g.move(x=a, F=b), lambda a, b, n: {"X": a, "F": b, "G": "G1"}, "ff")
    E["move(y,z)"] = (lambda g, a, b, n: g.move(y=a, z=b), lambda a, b, n: {"Y": a, "Z": b, "G": "G1"}, "ff")
    E["move-rel(x,E)"] = (lambda g, a, b, n: (g.set_distance_mode("relative"), g._rec.clear(),
                                              g.move(x=a, E=b)),
                          lambda a, b, n: {"X": a, "E": b, "G": "G1"}, "ff")
    E["rapid(z,S)"] = (lambda g, a, b, n: g.rapid(z=a, S=b), lambda a, b, n: {"Z": a, "S": b, "G": "G0"}, "ff")
    E["move_absolute(x,y)"] = (lambda g, a, b, n: g.move_absolute(x=a, y=b),
                               lambda a, b, n: {"X": a, "Y": b, "G": "G1"}, "ff")
    E["probe(z,F)"] = (lambda g, a, b, n: g.probe("towards-no-error", z=a, F=b),
                       lambda a, b, n: {"Z": a, "F": b, "G": "G38.3"}, "ff")
    E["set_axis(x,E)"] = (lambda g, a, b, n: g.set_axis(x=a, E=b),
                          lambda a, b, n: {"X": a, "E": b, "G": "G92"}, "ff")
    E["auto_home(x,y)"] = (lambda g, a, b, n: g.auto_home(x=a, y=b),
                           lambda a, b, n: {"X": a, "Y": b, "G": "G28"}, "ff")
    E["set_axis(x,comment)"] = (lambda g, a, b, n: g.set_axis(x=a, comment="zero here"),
                                lambda a, b, n: {"X": a, "G": "G92"}, "f")
    E["probe(z,comment)"] = (lambda g, a, b, n: g.probe("away", z=a, comment="touch off"),
                             lambda a, b, n: {"Z": a, "G": "G38.4"}, "f")
    E["auto_home(y,comment)"] = (lambda g, a, b, n: g.auto_home(y=a, comment="go home"),
                                 lambda a, b, n: {"Y": a, "G": "G28"}, "f")
    E["move(x,comment)"] = (lambda g, a, b, n: g.move(x=a, comment="cut"),
                            lambda a, b, n: {"X": a, "G": "G1"}, "f")
    E["move(x,comment-symbols)"] = (lambda g, a, b, n: g.move(x=a, comment="depth (mm) G0 Z-50 ; x ] y"),
                                    lambda a, b, n: {"X": a, "G": "G1"}, "f")
    E["comment(symbols)"] = (lambda g, a, b, n: g.comment("a) G0 Z-5 ;(b] c"), lambda a, b, n: {}, "")
    E["halt(bed,S)"] = (lambda g, a, b, n: g.halt("wait-for-bed", S=a),
                        lambda a, b, n: {"S": a, "M": "M190"}, "f")
    E["move(int x, int F)"] = (lambda g, a, b, n: g.move(x=n, F=n * n),
                               lambda a, b, n: {"X": ("int", n), "F": ("int", n * n), "G": "G1"}, "n")
    E["tool_change"] = (lambda g, a, b, n: g.tool_change("manual", n),
                        lambda a, b, n: {"T": ("tool", n), "M": "M06"}, "n")
    # numpy scalars: concrete, enumerated values (cannot be symbolic)
    for tag, val in (("f32-small", np.float32(2e-5)), ("f32", np.float32(0.25)),
                     ("f16", np.float16(0.1)), ("f64", np.float64(1234.5678)),
                     ("f32-nan", np.float32("nan")), ("f32-inf", np.float32("inf"))):
        E[f"move(E=np.{tag})"] = ((lambda v: lambda g, a, b, n: g.move(x=1.5, E=v))(val),
                                  (lambda v: lambda a, b, n: {"X": 1.5, "E": v, "G": "G1"})(val), "")
    return E


EMITTERS = None


def emitters():
    global EMITTERS
    if EMITTERS is None:
        EMITTERS = _emitters()
    return EMITTERS


_WORD = re.compile(r"^([A-Z]+)(.*)$")


def _nonfinite(v):
    return v != v or v == float("inf") or v == float("-inf")


def check_output(name, text, cfg, expected, raised):
    dp, style, ending, relabel, _via = cfg
    labels = {"X": "A", "Y": "B", "Z": "U"} if relabel else {}
    half = 0.5 * 10 ** (-dp)
    ctx = lambda: f"output={text!r} cfg={cfg!r}"  # noqa: E731
    if raised is not None:
        if text != "":
            return V(f"{name}-raised-after-emitting", lambda: f"{raised}; {ctx()}")
        return None
    if text == "" or not text.endswith(ending):
        return V(f"{name}-line-not-terminated", ctx)
    lines = text[: -len(ending)].split(ending)
    if len(lines) != 1:
        return V(f"{name}-unexpected-line-count", ctx)
    line = lines[0]
    if "\n" in line or "\r" in line:
        return V(f"{name}-stray-line-break", ctx)
    closer = BRACKETS.get(style)
    code = line
    idx = line.find(style)
    if idx >= 0:
        code = line[:idx]
        rest = line[idx + len(style):]
        if closer is not None:
            end = rest.find(closer)
            if end < 0 or rest[end + len(closer):].strip() != "":
                return V(f"{name}-comment-not-last-or-not-closed", ctx)
            # an opening symbol inside the comment text is part of that one comment (the comment
            # runs from the opener to the first closer), as in C09's lexer
        elif style in rest:
            pass  # ';' style: the rest of the line is the comment
    seen = {}
    for raw in code.split():
        m = _WORD.match(raw)
        if not m:
            return V(f"{name}-not-an-address-word", lambda: f"{raw!r}; {ctx()}")
        letters, payload = m.group(1), m.group(2)
        if letters in ("G", "M"):
            if not re.fullmatch(r"\d+(\.\d+)?", payload):
                return V(f"{name}-malformed-command-word", lambda: f"{raw!r}; {ctx()}")
            seen[letters] = raw
            continue
        seen[letters] = payload
    want = {}
    for k, v in expected.items():
        want[labels.get(k, k)] = v
    if set(seen) != set(want):
        return V(f"{name}-unexpected-set-of-words",
                 lambda: f"words {sorted(seen)} expected {sorted(want)}; {ctx()}")
    for letters, payload in seen.items():
        v = want[letters]
        if letters in ("G", "M"):
            # same code up to leading zeros
            a, b = payload[1:].lstrip("0") or "0", v[1:].lstrip("0") or "0"
            if a != b:
                return V(f"{name}-wrong-command-code", lambda: f"{payload!r} expected {v!r}; {ctx()}")
            continue
        if isinstance(v, tuple) and v[0] == "tool":
            if not re.fullmatch(r"\d+", payload) or int(payload) != v[1]:
                return V(f"{name}-tool-word-wrong", lambda: f"T{payload!r} for tool {v[1]!r}; {ctx()}")
            continue
        value = v[1] if isinstance(v, tuple) else v
        if MODE.symbolic:
            if payload == "0":
                if value > half or -value > half:
                    return V(f"{name}-nonzero-value-written-as-0",
                             lambda: f"{letters}0 for requested {value!r} at {dp} decimal places; {ctx()}")
                continue
            mt = re.fullmatch(r"#(\d+)#", payload)
            if not mt:
                return V(f"{name}-number-bypassed-the-formatter",
                         lambda: f"{letters}{payload!r} was not produced by number(); {ctx()}")
            tv, kw = TOKENS.values[int(mt.group(1))]
            if kw != dict(precision=dp, unique=True, fractional=True, sign=False, trim="-"):
                others = {k: v for k, v in kw.items() if k != "precision"}
                if others == dict(unique=True, fractional=True, sign=False, trim="-") and tv == value:
                    # only the precision differs: a value with no digits beyond the smaller of the
                    # two precisions is rendered identically, so it is no witness
                    t = value * 10 ** min(int(kw.get("precision", 0)), dp)
                    if t == int(t):
                        continue
                return V(f"{name}-wrong-formatting-options", lambda: f"{letters}: {kw!r}; {ctx()}")
            if not (tv == value):
                return V(f"{name}-wrong-value-formatted",
                         lambda: f"{letters}: formatted {tv!r}, requested {value!r}; {ctx()}")
        else:
            if not re.fullmatch(r"-?\d+(\.\d+)?", payload):
                return V(f"{name}-not-a-plain-decimal", lambda: f"{letters}{payload!r}; {ctx()}")
            if "." in payload and len(payload.split(".")[1]) > dp:
                return V(f"{name}-too-many-decimals", lambda: f"{letters}{payload!r}; {ctx()}")
            err = abs(float(payload) - float(value))
            if err > half * (1 + 1e-9) + 1e-12 * abs(float(value)):
                return V(f"{name}-not-within-half-a-unit",
                         lambda: f"{letters}{payload} for requested {value!r} (error {err}); {ctx()}")
    return None


def _make(name, cfg):
    call, expect, kinds = emitters()[name]

    def core(a, b, n):
        TOKENS.clear()
        g, rec = _cfg_builder(cfg)
        g._rec = rec
        if kinds == "n" or "n" in kinds:
            assume(n >= 0)
            assume(n <= 250)
        if name == "tool_change":
            assume(n >= 1)
        if name == "set_fan_speed":
            assume(a >= 0)
            assume(a <= 255)
        raised = None
        try:
            call(g, a, b, n)
        except Exception as e:  # noqa: BLE001
            raised = f"{type(e).__name__}: {e}"
            rname = type(e).__name__
        expected = expect(a, b, n)
        values = [v[1] if isinstance(v, tuple) else v for k, v in expected.items()
                  if k not in ("G", "M")]
        bad = any(_nonfinite(v) for v in values)
        neg = (name in ("set_feed_rate", "set_tool_power", "tool_on", "power_on", "sleep") and a < 0) \
            or (name in ("move(x,F)", "probe(z,F)") and b < 0) or (name == "rapid(z,S)" and b < 0)
        if raised is not None:
            if rname != "ValueError" or not (bad or neg):
                return V(f"{name}-unexpected-exception", lambda: f"{raised} (a={a!r} b={b!r} n={n!r})")
            reached("rejected")
        else:
            if bad:
                return V(f"{name}-non-finite-value-accepted",
                         lambda: f"a={a!r} b={b!r}: output={rec.text()!r}")
            reached("emitted")
        return check_output(name, rec.text(), cfg, expected, raised)

    if kinds == "f":
        def h(a: float):
            return core(a, 0.0, 0)
    elif kinds == "ff":
        def h(a: float, b: float):
            return core(a, b, 0)
    elif kinds == "fn":
        def h(a: float, n: int):
            return core(a, 0.0, n)
    elif kinds == "n":
        def h(n: int):
            return core(0.0, 0.0, n)
    else:
        def h():
            return core(0.0, 0.0, 0)
    return h


def _make_two(name, cfg_a, cfg_b):
    """Two builders alive at once with different configurations: each one's lines follow its own
    configuration whatever the other one has emitted (no formatter state is shared)."""
    call, expect, kinds = emitters()[name]

    def h(a: Finite, b: Finite):
        TOKENS.clear()
        assume(a >= 0)
        assume(b >= 0)
        ga, ra = _cfg_builder(cfg_a)
        gb, rb = _cfg_builder(cfg_b)
        for g, rec, cfg, tag in ((ga, ra, cfg_a, "first"), (gb, rb, cfg_b, "second"), (ga, ra, cfg_a, "first-again")):
            rec.clear()
            g._rec = rec
            try:
                call(g, a, b, 0)
            except Exception as e:  # noqa: BLE001
                msg = f"{type(e).__name__}: {e}"
                return V(f"two-builders-{name}-unexpected-exception", lambda: f"{tag}: {msg}")
            v = check_output(f"two-builders-{tag}-{name}", rec.text(), cfg, expect(a, b, 0), None)
            if v is not None:
                return v
        reached("emitted")
        return None
    return h


def configs(tier):
    if tier == "quick":
        return [(5, ";", "\n", False, "ctor"), (0, "(", "\r\n", True, "ctor"), (8, ";", "\r\n", False, "ctor"),
                (12, "(", "\n", False, "ctor"), (1, ";", "\n", True, "ctor"), (3, "[", "\n", False, "ctor"),
                (2, "(", "\r\n", True, "switch"), (9, "[", "\n", False, "switch")]
    return [(dp, st, en, rl, via) for dp in (0, 1, 5, 8, 12) for st in (";", "(", "[") for en in ("\n", "\r\n")
            for rl in (False, True) for via in ("ctor", "switch")]


def cells(tier):
    out = []
    for cfg in configs(tier):
        for name in emitters():
            cname = (f"{name}|dp={cfg[0]}|style={cfg[1]}|eol={cfg[2].encode('unicode-escape').decode()}"
                     f"|relabel={cfg[3]}|{cfg[4]}")
            out.append(Cell(cname, _make(name, cfg), budget_s=120 if tier == "quick" else 400,
                            entry=f"GCodeBuilder.{name.split('(')[0]}"))
    two = [((1, ";", "\n", False, "ctor"), (5, ";", "\n", False, "ctor")),
           ((8, "(", "\r\n", True, "ctor"), (2, ";", "\n", False, "ctor")),
           ((0, ";", "\n", False, "switch"), (12, "[", "\n", True, "ctor"))]
    for cfg_a, cfg_b in two:
        for name in ("move(x,F)", "set_feed_rate", "move(x,comment-symbols)", "set_axis(x,E)"):
            out.append(Cell(f"two-builders|{name}|dp={cfg_a[0]},{cfg_b[0]}|style={cfg_a[1]},{cfg_b[1]}",
                            _make_two(name, cfg_a, cfg_b), budget_s=120 if tier == "quick" else 400,
                            must_reach=("emitted",), entry="two GCodeBuilder instances"))
    return out
