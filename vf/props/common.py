"""Helpers shared by property harnesses."""

from __future__ import annotations

from typing import Any, Dict, List, Optional, Tuple

from ..mode import MODE, V, reached, num_eq
from ..refmachine import RefMachine, Malformed, split_lines, strip_comments, parse_block, canon_code
from ..shims import TOKENS
from ..fixture import build, mkpre, snapshot, diff_snapshots, Rec, Unreachable


def prepare(pre, history=False):
    """Builder + recorder in the requested pre-state for the current mode. history=True (or a cell
    made by history_variants): also the symbolic run reaches the pre-state through public calls from
    a fresh builder (a true history: caches and bookkeeping are whatever those calls left behind);
    pre-states that no public history reaches are pruned."""
    if MODE.symbolic:
        TOKENS.clear()
        if history or MODE.history_pre:
            from ..fixture import Unreachable
            from crosshair.util import IgnoreAttempt
            try:
                return build(pre, "public-unchecked")
            except Unreachable as u:
                raise IgnoreAttempt(f"pre-state not reachable through public calls: {u}")
        return build(pre, "private")
    if history or MODE.history_pre:
        # the symbolic run reached this state through the public calls alone, so the replay does
        # too, without comparing against a directly installed state
        return build(pre, "public-unchecked")
    return build(pre, "public")


def history_variants(cells, keep=None):
    """Copies of inductive-step cells whose pre-state is reached through public calls from a fresh
    builder instead of being installed directly."""
    import dataclasses
    import functools

    def wrap(fn):
        @functools.wraps(fn)
        def h(*a, **kw):
            MODE.history_pre = True
            try:
                return fn(*a, **kw)
            finally:
                MODE.history_pre = False
        return h

    out = []
    for c in cells:
        if keep is None or keep(c):
            out.append(dataclasses.replace(
                c, name=c.name + "|via-public-history", fn=wrap(c.fn), must_reach=(),
                note=(c.note + "; " if c.note else "") + "pre-state reached through public calls (true history)"))
    return out


def tokens():
    return TOKENS if MODE.symbolic else None


def attempt(fn, *a, **kw) -> Optional[BaseException]:
    """Call fn; return the exception it raised (Exception subclasses only)."""
    try:
        fn(*a, **kw)
    except Exception as e:  # noqa: BLE001  (CrossHair control flow is BaseException)
        return e
    return None


def blocks_of(rec: Rec, ending: str = "\n", opener: str = ";") -> List[List[str]]:
    """Emitted lines as lists of canonical word strings (comments removed).

    G/M words are canonicalised (M05 -> M5); other words keep their text.
    """
    out = []
    for line in split_lines(rec.text(), ending):
        code, _ = strip_comments(line, opener)
        words = parse_block(code, tokens())
        out.append([canon_code(w.letter, w.text) if w.letter in "GM" and not w.text.startswith("#")
                    else f"{w.letter}{w.text}" for w in words])
    return out


def machine_for(pre, rec=None) -> RefMachine:
    """Reference machine agreeing with the pre-state.

    Symbolic mode: constructed directly; ``pre['mknown'][i]`` says whether the
    machine knows axis i, a known axis has the builder's coordinate (I1).
    Concrete replay: obtained by interpreting the G-code the public set-up
    emitted; Unreachable if that does not give the requested knowledge flags.
    """
    if not MODE.symbolic and rec is not None:
        m = RefMachine(None)
        m.run_text(rec.setup_text, pre["line_ending"])
        for a, k, v in zip("XYZ", pre["mknown"], pre["pos"]):
            want_known = k and v is not None
            if (m.pos[a] is not None) != want_known:
                raise Unreachable(f"machine knowledge of {a} is {m.pos[a]!r}, wanted known={want_known}")
        return m
    m = RefMachine(tokens())
    for a, k, v in zip("XYZ", pre["mknown"], pre["pos"]):
        m.pos[a] = v if (k and v is not None) else None
    m.relative = bool(pre["relative"])
    m.tool_on = pre["tool"] is not None
    if pre["tool"] is not None:
        m.tool_code = {"cw": "M3", "ccw": "M4", "constant": "M3", "dynamic": "M4"}[pre["tool"][1]]
    m.coolant_on = pre["coolant"] is not None
    if pre["coolant"] is not None:
        m.coolant_code = {"mist": "M7", "flood": "M8"}[pre["coolant"]]
    m.feed = pre["feed"]
    m.power = pre["power"]
    if pre["tool_swap"] != "off":
        m.tool_number = pre["tool_number"]
    for key, t in zip(("hotend", "bed", "chamber"), pre["temps"]):
        if t is not None:
            m.temps[key] = t
    m.extrusion_relative = pre["extrusion"] == "relative"
    for k, v in pre["params"].items():
        m.params[k.upper()] = v
    return m


def exc_name(e) -> str:
    return type(e).__name__ if e is not None else "None"
