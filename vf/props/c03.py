"""C03 — configured bounds are never exceeded by an emitted command."""

from ..runner import Cell
from ..driver import Finite, assume
from .common import *  # noqa: F401,F403
from .steps import STEPS, BY_NAME

PROPERTY_ID = "C03"
FUNCTIONS = [
    "GCodeBuilder.move/rapid/move_absolute/rapid_absolute/probe/set_axis (+F,S,E words)",
    "GCodeBuilder.set_feed_rate/set_tool_power/tool_on/power_on/tool_change",
    "GCodeBuilder.set_bed/hotend/chamber_temperature, halt(wait-for-*, S|R)",
    "GCodeBuilder._prepare_move (hooks)/_track_move_params/_update_axes",
    "GState._set_axes/_set_feed_rate/_set_tool_power/_set_tool_number/_set_target_*_temperature",
    "BoundManager.validate, Point.within_bounds, Point.mask",
]
BOUNDS = ("One call from an arbitrary pre-position with all seven bounds configured. Cell grid: "
          "every call shape that emits a bounded quantity (46) x distance mode x focus axis is "
          "known/unknown x the other two axes known/unknown; plus move hooks that replace the parameters (new dict / same dict). "
          "Solver over: every range (any min<max), the pre-coordinate of the focus axis, all "
          "numeric arguments (reals, NaN, +-inf) and the F/S values a hook returns. Oracle: if "
          "anything was emitted, every F, S, T and temperature word is inside its range and the "
          "commanded target of G0/G1/G92/G38.x (absolute: the word; relative: tracked coordinate "
          "+ word) is inside the axes box on every axis the builder knows. G28 words are excluded "
          "(defined relative to the endstops). Interpolated segments: tracer frame condition "
          "(every vertex is one move()) plus the parametric() emission loop run on two symbolic "
          "sample points under symbolic bounds.")
ASSUMPTIONS = [
    "identity transform; the axes box is symbolic on the focus axis and [-1000,1000] on the others",
    "tool-number range is an arbitrary integer range with 1 <= min < max <= 99",
]

EMITTING = [s.name for s in STEPS if (
    s.group == "motion" and not s.name.startswith("auto_home")) or s.name in (
    "set_feed_rate", "set_tool_power", "tool_on:cw", "tool_on:ccw", "power_on:constant",
    "power_on:dynamic", "tool_change:manual", "tool_change:automatic",
    "set_bed_temperature", "set_hotend_temperature", "set_chamber_temperature",
    "halt:wait-for-bed(S)", "halt:wait-for-bed(R)", "halt:wait-for-hotend(S)",
    "halt:wait-for-hotend(R)", "halt:wait-for-chamber(S)", "halt:wait-for-chamber(R)",
    "halt:wait-for-bed(s)", "halt:wait-for-hotend(r)")]

TEMP_CODES = {"M140": "bed", "M190": "bed", "M104": "hotend", "M109": "hotend",
              "M141": "chamber", "M191": "chamber"}


def _in(v, lo, hi):
    return (v == v) and lo <= v and v <= hi


def _check_output(step_name, rec, pre, rng, detail_ctx):
    """rng: dict name -> (lo, hi); axes as per-axis dict."""
    try:
        lines = split_lines(rec.text(), pre["line_ending"])
        blocks = []
        for line in lines:
            code, _ = strip_comments(line, ";")
            blocks.append(parse_block(code, tokens()))
    except Malformed as mf:
        return V(f"{step_name}-malformed-output", str(mf))
    pos = dict(zip("XYZ", pre["pos"]))
    relative = pre["relative"]
    for words in blocks:
        codes = [canon_code(w.letter, w.text) for w in words if w.letter in "GM"]
        args = {w.letter: w.value for w in words if w.letter not in "GM"}
        temp = next((TEMP_CODES[c] for c in codes if c in TEMP_CODES), None)
        is_fan = "M106" in codes
        if "F" in args and not _in(args["F"], *rng["feed-rate"]):
            return V(f"{step_name}-F-word-out-of-range",
                     lambda: f"F={args['F']!r} outside {rng['feed-rate']!r}; output={rec.text()!r} {detail_ctx()}")
        for key in ("S", "R"):
            if key in args:
                if temp is not None:
                    if not _in(args[key], *rng[f"{temp}-temperature"]):
                        return V(f"{step_name}-{temp}-temperature-out-of-range",
                                 lambda: f"{key}={args[key]!r} outside {rng[temp + '-temperature']!r}; "
                                         f"output={rec.text()!r} {detail_ctx()}")
                elif key == "S" and not is_fan:
                    if not _in(args[key], *rng["tool-power"]):
                        return V(f"{step_name}-S-word-out-of-range",
                                 lambda: f"S={args['S']!r} outside {rng['tool-power']!r}; "
                                         f"output={rec.text()!r} {detail_ctx()}")
        if "T" in args and not _in(args["T"], *rng["tool-number"]):
            return V(f"{step_name}-T-word-out-of-range",
                     lambda: f"T={args['T']!r} outside {rng['tool-number']!r}; output={rec.text()!r}")
        for code in codes:
            if code in ("G90", "G91"):
                relative = code == "G91"
            motion = code in ("G0", "G1", "G38.2", "G38.3", "G38.4", "G38.5")
            if motion or code == "G92":
                for a in "XYZ":
                    if a not in args:
                        continue
                    if code == "G92" or not relative:
                        target = args[a]
                    elif pos[a] is None:
                        continue
                    else:
                        target = pos[a] + args[a]
                    lo, hi = rng["axes"][a]
                    if not _in(target, lo, hi):
                        return V(f"{step_name}-{code}-target-outside-axes-box",
                                 lambda: f"axis {a}: target {target!r} outside [{lo!r}, {hi!r}]; "
                                         f"output={rec.text()!r} {detail_ctx()}")
                    if code in ("G0", "G1", "G92"):
                        pos[a] = target
    return None


def _ranges(axis, alo, ahi, flo, fhi, plo, phi, tlo, thi, nlo, nhi):
    axes = {a: (-1000.0, 1000.0) for a in "XYZ"}
    axes[axis] = (alo, ahi)
    # three different temperature ranges derived from one symbolic range (a mix-up between the
    # bed / hotend / chamber tables must be visible)
    return {"axes": axes, "feed-rate": (flo, fhi), "tool-power": (plo, phi),
            "bed-temperature": (tlo, thi), "hotend-temperature": (tlo + 1000, thi + 1000),
            "chamber-temperature": (tlo - 1000, thi - 1000), "tool-number": (nlo, nhi)}


def _bounds_from(rng):
    b = {k: v for k, v in rng.items() if k != "axes"}
    b["axes"] = (tuple(rng["axes"][a][0] for a in "XYZ"), tuple(rng["axes"][a][1] for a in "XYZ"))
    return b


def _focus_axis(step_name):
    for a, tag in (("X", "(x"), ("Y", "(y"), ("Z", "(z")):
        if tag in step_name:
            return a
    return "X"


def _make(step, rel, known, others_known=True):
    axis = _focus_axis(step.name)

    def core(f, n, p, alo, ahi, flo, fhi, plo, phi, tlo, thi, nlo, nhi):
        assume(alo < ahi)
        assume(flo < fhi)
        assume(plo < phi)
        assume(tlo < thi)
        assume(1 <= nlo)
        assume(nlo < nhi)
        assume(nhi <= 99)
        for k in n:
            assume(k >= -2)
            assume(k <= 120)
        rng = _ranges(axis, alo, ahi, flo, fhi, plo, phi, tlo, thi, nlo, nhi)
        pos = {"X": 1.0, "Y": 2.0, "Z": 3.0} if others_known else {"X": None, "Y": None, "Z": None}
        pos[axis] = p if known else None
        pre = mkpre(pos=(pos["X"], pos["Y"], pos["Z"]), relative=rel, bounds=_bounds_from(rng))
        g, rec = prepare(pre)
        e = attempt(step.call, g, f, n)
        if e is not None and exc_name(e) not in ("ValueError",):
            return V(f"{step.name}-unexpected-{exc_name(e)}", lambda: f"{exc_name(e)}: {e}")
        if e is None:
            reached("accepted")
        else:
            reached("rejected")
        return _check_output(step.name, rec, pre, rng,
                             lambda: f"(f={f!r}, n={n!r}, pre {axis}={pos[axis]!r}, raised={exc_name(e)})")

    sig = (step.nf, step.ni)
    if sig == (1, 0):
        def h(a: float, p: Finite, alo: Finite, ahi: Finite, flo: Finite, fhi: Finite, plo: Finite,
              phi: Finite, tlo: Finite, thi: Finite, nlo: int, nhi: int):
            return core([a], [], p, alo, ahi, flo, fhi, plo, phi, tlo, thi, nlo, nhi)
    elif sig == (2, 0):
        def h(a: float, b: float, p: Finite, alo: Finite, ahi: Finite, flo: Finite, fhi: Finite,
              plo: Finite, phi: Finite, tlo: Finite, thi: Finite, nlo: int, nhi: int):
            return core([a, b], [], p, alo, ahi, flo, fhi, plo, phi, tlo, thi, nlo, nhi)
    elif sig == (3, 0):
        def h(a: float, b: float, c: float, p: Finite, alo: Finite, ahi: Finite, flo: Finite,
              fhi: Finite, plo: Finite, phi: Finite, tlo: Finite, thi: Finite, nlo: int, nhi: int):
            return core([a, b, c], [], p, alo, ahi, flo, fhi, plo, phi, tlo, thi, nlo, nhi)
    elif sig == (0, 1):
        def h(k: int, p: Finite, alo: Finite, ahi: Finite, flo: Finite, fhi: Finite, plo: Finite,
              phi: Finite, tlo: Finite, thi: Finite, nlo: int, nhi: int):
            return core([], [k], p, alo, ahi, flo, fhi, plo, phi, tlo, thi, nlo, nhi)
    else:
        raise ValueError((step.name, sig))
    return h


def _make_hook(kind, entry, rel):
    """A move hook that rewrites F and S: kind 'new' returns a fresh ParamsDict, 'same' mutates."""
    from gscrib.params import ParamsDict

    def h(x: Finite, hf: float, hs: float, p: Finite, alo: Finite, ahi: Finite, flo: Finite,
          fhi: Finite, plo: Finite, phi: Finite):
        assume(alo < ahi)
        assume(flo < fhi)
        assume(plo < phi)
        rng = _ranges("X", alo, ahi, flo, fhi, plo, phi, 0.0, 300.0, 1, 9)
        pre = mkpre(pos=(p, 2.0, 3.0), relative=rel, bounds=_bounds_from(rng))
        g, rec = prepare(pre)

        def hook(origin, target, params, state):
            if kind == "new":
                out = ParamsDict(params)
                out.update(F=hf, S=hs)
                return out
            params.update(F=hf, S=hs)
            return params

        g.add_hook(hook)
        if entry == "move":
            e = attempt(g.move, x=x, F=flo, S=plo)
        else:
            e = attempt(g.move, x=x)
        if e is not None and exc_name(e) != "ValueError":
            return V(f"hook-{kind}-unexpected-{exc_name(e)}", lambda: f"{exc_name(e)}: {e}")
        reached("accepted" if e is None else "rejected")
        return _check_output(f"hook-{kind}-{entry}", rec, pre, rng,
                             lambda: f"(x={x!r}, hook F={hf!r} S={hs!r}, raised={exc_name(e)})")
    return h


def _make_trace(rel):
    """Interpolated segments: parametric() emission loop on two symbolic sample points with a
    symbolic axes box and feed range; every emitted vertex must be inside."""
    def h(p: Finite, ax: Finite, bx: Finite, f: float, alo: Finite, ahi: Finite, flo: Finite,
          fhi: Finite):
        assume(alo < ahi)
        assume(flo < fhi)
        rng = _ranges("X", alo, ahi, flo, fhi, 0.0, 10.0, 0.0, 300.0, 1, 9)
        pre = mkpre(pos=(p, 2.0, 3.0), relative=rel, bounds=_bounds_from(rng))
        g, rec = prepare(pre)
        verts = [(ax, 2.5, 3.0), (bx, 4.0, 3.5)]
        g.trace._filter_segments = lambda pts: pts
        e = attempt(g.trace.parametric, lambda thetas: verts, 10.0, F=f)
        if e is not None and exc_name(e) != "ValueError":
            msg = f"{exc_name(e)}: {e}"
            return V("trace-unexpected-exception", msg)
        reached("accepted" if e is None else "rejected")
        return _check_output("trace-parametric", rec, pre, rng,
                             lambda: f"(start X={p!r}, samples X={ax!r},{bx!r}, F={f!r}, raised={exc_name(e)})")
    return h


def cells(tier):
    out = []
    budget = 120 if tier == "quick" else 400
    for name in EMITTING:
        step = BY_NAME[name]
        for rel in (False, True):
            for known in (True, False):
                if step.group != "motion" and (rel or not known):
                    continue
                if tier == "quick" and not known and "(x" not in name:
                    continue
                cname = f"{name}|{'rel' if rel else 'abs'}|axis-{'known' if known else 'unknown'}"
                out.append(Cell(cname, _make(step, rel, known), budget_s=budget,
                                entry=f"GCodeBuilder.{name.split(':')[0].split('(')[0]}"))
                if step.group == "motion" and known and (tier != "quick" or "(x)" in name or "(y,S)" in name):
                    out.append(Cell(cname + "|other-axes-unknown", _make(step, rel, True, False),
                                    budget_s=budget,
                                    entry=f"GCodeBuilder.{name.split(':')[0].split('(')[0]}"))
    for rel in (False, True):
        out.append(Cell(f"trace:parametric|{'rel' if rel else 'abs'}", _make_trace(rel), budget_s=budget,
                        entry="PathTracer.parametric (emission)"))
    for kind in ("new", "same"):
        for entry in ("move", "move-noFS"):
            for rel in (False, True):
                out.append(Cell(f"hook:{kind}:{entry}|{'rel' if rel else 'abs'}",
                                _make_hook(kind, entry, rel), budget_s=budget,
                                entry="GCodeBuilder._prepare_move (hooks)"))
    out += history_variants([c for c in out if not c.name.startswith(('history', 'real-', 'two-'))])
    return out
