"""C09 — comment text can never change what the machine executes."""

from ..runner import Cell
from ..driver import FixedStr, assume
from ..mode import MODE, V, reached
from ..shims import TOKENS
from ..fixture import Rec
from ..refmachine import BRACKETS

PROPERTY_ID = "C09"
FUNCTIONS = [
    "GCodeCore.comment", "GCodeCore.annotate", "GCodeCore.move/rapid/move_absolute (comment=)",
    "GCodeBuilder.set_axis/auto_home/probe (comment=)", "GCodeBuilder.emergency_halt(message)",
    "DefaultFormatter.comment/command/line/_to_comment_template", "GCodeCore.write",
    "GCodeBuilder._get_statement",
]
BOUNDS = ("Cell grid: comment style {; ( [ < \" ' /* #} x entry point that accepts text (12) x text "
          "length (quick 1-2, thorough 1-3 code points). Solver over: every code point of the text "
          "(0..0x10FFFF). Oracle: an independent lexer splits the output at CR/LF and removes "
          "comments under the configured style; the executable words per line and the number of "
          "lines must equal those of the same call with the text 'x'. Longer texts are outside the "
          "claim, except for texts of 4-5 characters over the alphabet {delimiter characters of the "
          "style, 'x', space, LF} (nested / overlapping delimiters). Plus history cells: the same text "
          "before and after a run-time change of the comment style.")
ASSUMPTIONS = [
    "bytes(line, 'utf-8') in GCodeCore.write is stubbed as an injective encoding (text kept as is)",
    "a physical line ends at LF, CR or CRLF (what G-code receivers do), whatever ending is configured",
    "annotate() keys are explored over ASCII code points only",
    "the '{' comment style is not covered: on the unchanged tree every comment in that style raises "
    "ValueError from str.format (nothing is emitted)",
]

STYLES = [";", "(", "[", "<", '"', "'", "/*", "#"]


def lex(out, opener):
    """Independent lexer: list of per-line word lists, or ('malformed', why)."""
    closer = BRACKETS.get(opener)
    lines = []
    code = ""
    in_comment = False
    i = 0
    n = len(out)
    while i < n:
        ch = out[i]
        if ch == "\n" or ch == "\r":
            if in_comment and closer is not None:
                return ("malformed", "comment not closed before the end of the line")
            in_comment = False
            lines.append(code.split())
            code = ""
            if ch == "\r" and i + 1 < n and out[i + 1] == "\n":
                i += 1
            i += 1
            continue
        if in_comment:
            if closer is not None and out.startswith(closer, i):
                in_comment = False
                i += len(closer)
            else:
                i += 1
            continue
        if out.startswith(opener, i):
            in_comment = True
            i += len(opener)
            continue
        code = code + ch
        i += 1
    if code.split() or in_comment:
        return ("malformed", "output does not end with a line terminator")
    return lines


ENTRIES = {
    "comment": lambda g, t: g.comment(t),
    "comment-arg": lambda g, t: g.comment("note", t),
    "annotate-value": lambda g, t: g.annotate("key", t),
    "annotate-key": lambda g, t: g.annotate(t, "value"),
    "move": lambda g, t: g.move(x=1.5, comment=t),
    "rapid": lambda g, t: g.rapid(y=2.5, comment=t),
    "move_absolute": lambda g, t: g.move_absolute(z=3.5, comment=t),
    "set_axis": lambda g, t: g.set_axis(x=1.5, comment=t),
    "auto_home": lambda g, t: g.auto_home(comment=t),
    "probe": lambda g, t: g.probe("towards", z=-1.5, comment=t),
    "emergency_halt": lambda g, t: g.emergency_halt(t),
    "emergency_halt-reset": lambda g, t: g.emergency_halt(t, True),
}


def _run(style, entry, text, ending):
    from gscrib import GCodeBuilder
    TOKENS.clear()
    g = GCodeBuilder(comment_symbols=style,
                     line_endings=ending.encode("unicode-escape").decode("ascii"))
    rec = Rec()
    g.add_writer(rec)
    err = None
    try:
        ENTRIES[entry](g, text)
    except Exception as e:  # noqa: BLE001
        err = e
    return rec.text(), err


def _make(style, entry, length, ending, alphabet=None):
    ref_text = "k" if entry == "annotate-key" else "x"

    def h(t):
        if alphabet is not None:
            # deepening: longer texts over the characters that matter for this style
            for ch in t:
                assume(ch in alphabet)
        if entry == "annotate-key":
            # bound: ASCII keys only (str.isidentifier over all of Unicode does not exhaust)
            for ch in t:
                assume(ord(ch) < 128)
        ref_out, ref_err = _run(style, entry, ref_text, ending)
        ref = lex(ref_out, style)
        if ref_err is not None or not isinstance(ref, list):
            return V("harness-reference-run-failed", lambda: f"{ref_err!r} {ref!r} {ref_out!r}")
        out, err = _run(style, entry, t, ending)
        if err is not None:
            name = type(err).__name__
            if len(out) != 0:
                msg = f"{name}: {err}"
                return V(f"{entry}-raised-after-emitting", lambda: f"{msg}; output={out!r} text={t!r}")
            if entry == "annotate-key" and name == "ValueError":
                reached("rejected-key")
                return None
            msg = f"{name}: {err}"
            return V(f"{entry}-unexpected-{name}", lambda: f"{msg}; text={t!r}")
        got = lex(out, style)
        if not isinstance(got, list):
            return V(f"{entry}-malformed-output",
                     lambda: f"{got[1]}: output={out!r} for text={t!r} (style {style!r})")
        if len(got) != len(ref):
            return V(f"{entry}-line-count-changed",
                     lambda: f"{len(ref)} line(s) with text 'x', {len(got)} with text={t!r}: "
                             f"output={out!r} (style {style!r})")
        if got != ref:
            return V(f"{entry}-executable-words-changed",
                     lambda: f"words {ref!r} with text 'x' became {got!r} with text={t!r}: "
                             f"output={out!r} (style {style!r})")
        reached("same")
        return None

    h.__annotations__ = {"t": FixedStr(length)}
    return h


def _make_switch(style_a, style_b, length):
    """History cell: the same text is used before and after the comment style is changed at
    run time (public g.format.set_comment_symbols); the output after the switch is judged
    under the new style."""
    from gscrib import GCodeBuilder

    def run(text):
        TOKENS.clear()
        g = GCodeBuilder(comment_symbols=style_a, line_endings="\\n")
        rec = Rec()
        g.add_writer(rec)
        err = None
        try:
            g.comment(text)
            g.move(x=1.5, comment=text)
            rec.clear()
            g.format.set_comment_symbols(style_b)
            g.comment(text)
            g.move(x=2.5, comment=text)
            g.tool_off()
        except Exception as e:  # noqa: BLE001
            err = e
        return rec.text(), err

    def h(t):
        ref_out, ref_err = run("x")
        ref = lex(ref_out, style_b)
        if ref_err is not None or not isinstance(ref, list):
            return V("harness-reference-run-failed", lambda: f"{ref_err!r} {ref!r} {ref_out!r}")
        if ref[0] != [] or len(ref) != 3 or ref[1][:1] != ["G1"] or len(ref[1]) != 2:
            return V("style-switch-comment-not-a-comment-under-new-style",
                     lambda: f"after switching {style_a!r} -> {style_b!r} the text 'x' gives {ref!r}: "
                             f"output={ref_out!r}")
        out, err = run(t)
        if err is not None:
            msg = f"{type(err).__name__}: {err}"
            return V("style-switch-unexpected-exception", lambda: f"{msg}; text={t!r}")
        got = lex(out, style_b)
        if not isinstance(got, list):
            return V("style-switch-malformed-output",
                     lambda: f"{got[1]}: output={out!r} for text={t!r} ({style_a!r} -> {style_b!r})")
        if got != ref:
            return V("style-switch-executable-words-changed",
                     lambda: f"after switching {style_a!r} -> {style_b!r}: words {ref!r} with 'x' became "
                             f"{got!r} with text={t!r}: output={out!r}")
        reached("same")
        return None

    h.__annotations__ = {"t": FixedStr(length)}
    return h


def cells(tier):
    out = []
    quick = tier == "quick"
    for style in STYLES:
        for entry in ENTRIES:
            for length in ((1, 2) if quick else (1, 2, 3)):
                for ending in (("\n",) if quick else ("\n", "\r\n")):
                    if quick and length == 2 and entry in ("comment-arg", "rapid", "move_absolute",
                                                           "emergency_halt-reset", "auto_home"):
                        continue
                    name = (f"{entry}|style={style}|len={length}|"
                            f"eol={ending.encode('unicode-escape').decode('ascii')}")
                    out.append(Cell(name, _make(style, entry, length, ending),
                                    budget_s=150 if quick else 900, per_path_s=20,
                                    entry=f"GCodeBuilder.{entry.split('-')[0]}"))
    for style in STYLES:
        closer = BRACKETS.get(style, "")
        alphabet = "".join(sorted(set(style + closer + "x \n")))
        for entry in (("move", "comment") if quick else ("move", "comment", "comment-arg", "emergency_halt")):
            for length in ((4,) if quick else (4, 5)):
                if quick and len(closer) < 2 and style != "(":
                    continue
                out.append(Cell(f"{entry}|style={style}|len={length}|alphabet={alphabet!r}",
                                _make(style, entry, length, "\n", alphabet),
                                budget_s=200 if quick else 1200, per_path_s=30,
                                entry=f"GCodeBuilder.{entry.split('-')[0]}"))
    pairs = [(";", "("), ("(", ";"), ("[", "("), ('"', "#")]
    if not quick:
        pairs += [("#", "/*"), ("/*", "'"), ("<", "["), ("'", ";")]
    for a, b in pairs:
        for length in ((1,) if quick else (1, 2)):
            out.append(Cell(f"style-switch|{a}->{b}|len={length}", _make_switch(a, b, length),
                            budget_s=150 if quick else 900, per_path_s=20,
                            entry="DefaultFormatter.set_comment_symbols + comment"))
    return out
