"""C20 — move hooks see the true move and extrusion matches path length."""

import itertools
import math

from ..runner import Cell
from ..driver import Finite, assume
from .common import *  # noqa: F401,F403

PROPERTY_ID = "C20"
FUNCTIONS = [
    "GCodeBuilder._prepare_move (hook threading)", "GCodeBuilder.add_hook/remove_hook/move_hook",
    "GCodeCore.move/move_absolute/rapid/rapid_absolute", "GCodeCore.to_absolute",
    "GCodeBuilder._update_axes/_track_move_params", "gscrib.hooks.extrusion_hook.extrusion_hook",
    "ParamsDict", "DefaultFormatter.command/parameters",
]
BOUNDS = ("(A) recording hooks: cell grid entry {move, move_absolute, rapid, rapid_absolute} x "
          "distance mode x which pre-position axes are None (quick 3, thorough 8 patterns) x which "
          "arguments are given (8) x number of hooks (1, 2, or a last hook that returns a NEW dict without the F it was given); solver over the pre-position, the "
          "arguments and the E value the hook returns. Checked: each hook is called exactly once "
          "per linear move (never for rapids) with origin = resolved pre-position and target = "
          "independently computed absolute target; the parameters returned by the last hook are "
          "the ones emitted and remembered. (B) bundled extrusion hook: math.hypot inside the hook "
          "module is stubbed to return a fresh non-negative symbolic h while recording its "
          "arguments; cell grid distance mode x extrusion mode x previous-E present/absent x entry "
          "{move, move_absolute} x geometry (3 concrete (layer, nozzle, filament) triples); solver "
          "over pre-position, arguments, h in [0,1e6] and the previous E in [-1e6,1e6]. Checked: hypot arguments = XY "
          "displacement; E = area ratio * h (relative extrusion) or previous E + that (absolute). "
          "History cells: move, then a command without an E word (rapid, probe, distance-mode "
          "switch) or an E reset (set_axis(E=0)), then move: the running total continues / restarts. "
          "Interpolated segments: tracer frame condition (every vertex is one move()) plus a recording "
          "hook under the parametric() emission loop (two symbolic vertices).")
ASSUMPTIONS = [
    "math.hypot is stubbed (contract: Euclidean norm); geometry triples are concrete so that the "
    "E formula stays linear for z3",
    "identity transform, no bounds",
]

PATTERNS = list(itertools.product([True, False], repeat=3))


def _pick(pattern, values):
    return tuple(v if has else None for has, v in zip(pattern, values))


def _target(pos, args, rel):
    base = tuple(0 if c is None else c for c in pos)
    if rel:
        return tuple(b + (0 if a is None else a) for b, a in zip(base, args))
    return tuple(b if a is None else a for b, a in zip(base, args))


def _motion_words(rec):
    """Words of the (single) G1/G0 block among the emitted lines."""
    found = []
    for line in split_lines(rec.text()):
        words = parse_block(strip_comments(line, ";")[0], tokens())
        if any(w.letter == "G" and canon_code("G", w.text) in ("G0", "G1") for w in words):
            found.append(words)
    if len(found) != 1:
        raise Malformed(f"expected exactly one motion block, got {len(found)}: {rec.text()!r}")
    return found[0]


def _make_record(entry, rel, prepat, argpat, nhooks):
    def h(px: Finite, py: Finite, pz: Finite, ax: Finite, ay: Finite, az: Finite, e1: Finite,
          e2: Finite):
        pos = _pick(prepat, (px, py, pz))
        args = _pick(argpat, (ax, ay, az))
        pre = mkpre(pos=pos, relative=rel)
        g, rec = prepare(pre)
        calls = []

        def hook_a(origin, target, params, state):
            calls.append(("a", tuple(origin), tuple(target), dict(params), state is g.state))
            params.update(E=e1)
            return params

        def hook_b(origin, target, params, state):
            calls.append(("b", tuple(origin), tuple(target), dict(params), state is g.state))
            out = type(params)(params)      # a NEW ParamsDict
            out.update(E=e2, Q=7.0)
            return out

        def hook_c(origin, target, params, state):
            calls.append(("c", tuple(origin), tuple(target), dict(params), state is g.state))
            out = type(params)({k: v for k, v in params.items() if k != "F"})   # drops F
            out.update(E=e2)
            return out

        g.add_hook(hook_a)
        if nhooks == 2:
            g.add_hook(hook_b)
        if nhooks == 3:
            g.add_hook(hook_c)
        kw = {k: v for k, v in zip("xyz", args) if v is not None}
        if nhooks == 3:
            kw["F"] = 1200.0
        e = attempt(getattr(g, entry), **kw)
        if e is not None:
            msg = f"{exc_name(e)}: {e}"
            return V(f"{entry}-unexpected-exception", msg)
        linear = entry in ("move", "move_absolute")
        ctx = lambda: (f"entry={entry} rel={rel} pos={pos!r} args={args!r} calls={calls!r} "  # noqa: E731
                       f"output={rec.text()!r}")
        if not linear:
            if calls:
                return V(f"{entry}-hook-called-for-rapid", ctx)
            reached("rapid")
            return None
        order = {1: ["a"], 2: ["a", "b"], 3: ["a", "c"]}[nhooks]
        if [c[0] for c in calls] != order:
            return V(f"{entry}-hook-call-count-or-order", ctx)
        origin_want = tuple(0 if c is None else c for c in pos)
        # move_absolute always targets absolute coordinates, whatever the distance mode
        target_want = _target(pos, args, rel and entry == "move")
        for tag, origin, target, params, same_state in calls:
            if not same_state:
                return V(f"{entry}-hook-got-wrong-state-object", ctx)
            for i in range(3):
                if not num_eq(origin[i], origin_want[i]):
                    return V(f"{entry}-hook-origin-wrong",
                             lambda: f"hook {tag}: origin {origin!r}, expected {origin_want!r}; {ctx()}")
                if not num_eq(target[i], target_want[i]):
                    return V(f"{entry}-hook-target-wrong",
                             lambda: f"hook {tag}: target {target!r}, expected {target_want!r}; {ctx()}")
        e_want = e1 if nhooks == 1 else e2
        try:
            words = _motion_words(rec)
        except Malformed as mf:
            return V(f"{entry}-malformed-output", str(mf))
        emitted = {w.letter: w.value for w in words}
        if "E" not in emitted or not num_eq(emitted["E"], e_want):
            return V(f"{entry}-hook-parameters-not-emitted",
                     lambda: f"E emitted {emitted.get('E')!r}, hook returned {e_want!r}; {ctx()}")
        if nhooks == 2 and ("Q" not in emitted or not num_eq(emitted["Q"], 7.0)):
            return V(f"{entry}-hook-parameters-not-emitted", lambda: f"Q missing; {ctx()}")
        if nhooks == 3 and ("F" in emitted or g.get_parameter("F") is not None):
            return V(f"{entry}-parameter-dropped-by-the-hook-still-emitted-or-remembered",
                     lambda: f"the last hook returned no F, yet F is emitted/remembered "
                             f"({emitted.get('F')!r}, {g.get_parameter('F')!r}); {ctx()}")
        got = g.get_parameter("E")
        if got is None or not num_eq(got, e_want):
            return V(f"{entry}-hook-parameters-not-remembered",
                     lambda: f"get_parameter('E')={got!r}, hook returned {e_want!r}; {ctx()}")
        sgot = g.state.get_parameter("E")
        if sgot is None or not num_eq(sgot, e_want):
            return V(f"{entry}-hook-parameters-not-remembered-by-state",
                     lambda: f"state.get_parameter('E')={sgot!r}, hook returned {e_want!r}; {ctx()}")
        reached("linear")
        return None
    return h


def _make_extrusion_history(rel, ext_rel, middle):
    """move, <middle command without an E word>, move: in absolute extrusion mode the running
    total continues across the middle command (restarts only after an E reset)."""
    import importlib
    eh_mod = importlib.import_module("gscrib.hooks.extrusion_hook")
    layer, nozzle, filament = GEOMETRIES[0]
    ratio = (nozzle * layer) / (math.pi * (filament / 2.0) * (filament / 2.0))

    class Stub2(_MathStub):
        def __init__(self, hs):
            super().__init__(None)
            self.hs = list(hs)

        def hypot(self, *args):
            self.calls.append(args)
            return self.hs[len(self.calls) - 1]

    def h(px: Finite, py: Finite, ax: Finite, ay: Finite, bx: Finite, h1: Finite, h2: Finite,
          e0: Finite):
        for v in (h1, h2):
            assume(v >= 0)
            assume(v <= 1e6)
        assume(e0 >= -1e6)
        assume(e0 <= 1e6)
        pre = mkpre(pos=(px, py, 1.0), relative=rel, extrusion="relative" if ext_rel else "absolute",
                    params={"E": e0})
        g, rec = prepare(pre)
        stub = Stub2([h1, h2])
        old_math = eh_mod.math
        if MODE.symbolic:
            eh_mod.math = stub
        try:
            g.add_hook(eh_mod.extrusion_hook(layer, nozzle, filament))
            e = attempt(g.move, x=ax, y=ay)
            if e is None:
                if middle == "rapid":
                    e = attempt(g.rapid, z=5.0)
                elif middle == "probe":
                    e = attempt(g.probe, "towards", z=-1.0)
                elif middle == "reset":
                    e = attempt(g.set_axis, E=0.0)
                elif middle == "mode":
                    e = attempt(g.set_distance_mode, "relative" if not rel else "absolute")
            rec.clear()
            if e is None:
                if middle == "mode":
                    e = attempt(g.move, x=bx)
                else:
                    e = attempt(g.move, x=bx)
        finally:
            eh_mod.math = old_math
        if e is not None:
            msg = f"{exc_name(e)}: {e}"
            return V("extrusion-history-unexpected-exception", msg)
        if MODE.symbolic:
            l1, l2 = h1, h2
        else:
            t1 = _target((px, py, 1.0), (ax, ay, None), rel)
            rel2 = (not rel) if middle == "mode" else rel
            t2 = _target(t1, (bx, None, None), rel2)
            l1 = math.hypot(t1[0] - px, t1[1] - py)
            l2 = math.hypot(t2[0] - t1[0], t2[1] - t1[1])
        if ext_rel:
            want = ratio * l2
        elif middle == "reset":
            want = ratio * l2
        else:
            want = e0 + ratio * l1 + ratio * l2
        try:
            words = _motion_words(rec)
        except Malformed as mf:
            return V("extrusion-malformed-output", str(mf))
        emitted = {w.letter: w.value for w in words}
        tol = 1e-6 if MODE.symbolic else 1e-3
        if "E" not in emitted:
            return V("extrusion-no-E-word", lambda: f"output={rec.text()!r}")
        d = emitted["E"] - want
        if d > tol or -d > tol:
            return V("extrusion-running-total-wrong-after-" + middle,
                     lambda: f"second move E={emitted['E']!r}, expected {want!r} (previous E {e0!r}, "
                             f"lengths {l1!r}, {l2!r}, ratio {ratio!r}, extrusion_relative={ext_rel})")
        reached("extruded")
        return None
    return h


def _make_trace_hook(rel):
    """Each interpolated segment is one linear move: the hook is called once per vertex with the
    previous vertex as origin and the vertex as target (parametric() emission loop, stubbed curve)."""
    def h(px: Finite, py: Finite, ax: Finite, ay: Finite, bx: Finite, by: Finite):
        pos = (px, py, 1.0)
        pre = mkpre(pos=pos, relative=rel)
        g, rec = prepare(pre)
        calls = []

        def hook(origin, target, params, state):
            calls.append((tuple(origin), tuple(target)))
            params.update(E=len(calls) * 1.5)
            return params

        g.add_hook(hook)
        verts = [(ax, ay, 2.0), (bx, by, -3.0)]
        g.trace._filter_segments = lambda pts: pts
        e = attempt(g.trace.parametric, lambda thetas: verts, 10.0)
        if e is not None:
            msg = f"{exc_name(e)}: {e}"
            return V("trace-hook-unexpected-exception", msg)
        if len(calls) != 2:
            return V("trace-hook-not-called-once-per-segment", lambda: f"{calls!r}")
        want = [(pos, verts[0]), (verts[0], verts[1])]
        for (o, t), (wo, wt) in zip(calls, want):
            for i in range(3):
                if not num_eq(o[i], wo[i]) or not num_eq(t[i], wt[i]):
                    return V("trace-hook-saw-a-wrong-segment",
                             lambda: f"hook calls {calls!r}, expected {want!r}")
        got = g.get_parameter("E")
        if got is None or not num_eq(got, 3.0):
            return V("trace-hook-parameters-not-remembered", lambda: f"E={got!r}")
        reached("linear")
        return None
    return h


class _MathStub:
    """math for gscrib.hooks.extrusion_hook: hypot returns the harness' symbolic h."""

    def __init__(self, h):
        self.h = h
        self.calls = []
        self.pi = math.pi

    def hypot(self, *args):
        self.calls.append(args)
        return self.h

    def __getattr__(self, name):
        return getattr(math, name)


GEOMETRIES = [(0.2, 0.4, 1.75), (0.3, 0.6, 2.85), (0.1, 0.25, 1.75)]


def _make_extrusion(entry, rel, ext_rel, has_prev, geom):
    import importlib
    eh_mod = importlib.import_module("gscrib.hooks.extrusion_hook")
    layer, nozzle, filament = geom
    ratio = (nozzle * layer) / (math.pi * (filament / 2.0) * (filament / 2.0))

    def h(px: Finite, py: Finite, pz: Finite, ax: Finite, ay: Finite, hyp: Finite, e0: Finite):
        assume(hyp >= 0)
        assume(hyp <= 1e6)
        assume(e0 >= -1e6)
        assume(e0 <= 1e6)
        pos = (px, py, pz)
        args = (ax, ay, None)
        params = {"E": e0} if has_prev else {}
        pre = mkpre(pos=pos, relative=rel, extrusion="relative" if ext_rel else "absolute",
                    params=params)
        g, rec = prepare(pre)
        stub = _MathStub(hyp)
        old_math = eh_mod.math
        if MODE.symbolic:
            eh_mod.math = stub
        try:
            g.add_hook(eh_mod.extrusion_hook(layer, nozzle, filament))
            e = attempt(getattr(g, entry), x=ax, y=ay)
        finally:
            eh_mod.math = old_math
        if e is not None:
            msg = f"{exc_name(e)}: {e}"
            return V(f"extrusion-{entry}-unexpected-exception", msg)
        target = _target(pos, args, rel and entry == "move")
        dx, dy = target[0] - px, target[1] - py
        ctx = lambda: (f"entry={entry} rel={rel} extrusion_relative={ext_rel} pos={pos!r} "  # noqa: E731
                       f"args=({ax!r},{ay!r}) prev E={'%r' % (e0,) if has_prev else None} "
                       f"output={rec.text()!r}")
        if MODE.symbolic:
            if len(stub.calls) != 1 or len(stub.calls[0]) != 2:
                return V("extrusion-hypot-call-shape", lambda: f"calls={stub.calls!r}; {ctx()}")
            hx, hy = stub.calls[0]
            if not (num_eq(hx, dx) and num_eq(hy, dy)):
                return V("extrusion-length-not-the-xy-displacement",
                         lambda: f"hypot({hx!r}, {hy!r}), XY displacement is ({dx!r}, {dy!r}); {ctx()}")
            length = hyp
        else:
            length = math.hypot(dx, dy)
        amount = ratio * length
        want = amount if ext_rel else ((e0 if has_prev else 0.0) + amount)
        try:
            words = _motion_words(rec)
        except Malformed as mf:
            return V("extrusion-malformed-output", str(mf))
        emitted = {w.letter: w.value for w in words}
        if "E" not in emitted:
            return V("extrusion-no-E-word", ctx)
        d = emitted["E"] - want
        tol = 1e-9 if MODE.symbolic else 1e-4
        if d > tol or -d > tol:
            return V("extrusion-amount-wrong",
                     lambda: f"E={emitted['E']!r}, expected {want!r} (ratio {ratio!r} x length "
                             f"{length!r}); {ctx()}")
        got = g.get_parameter("E")
        if got is None or (got - want) > tol or (want - got) > tol:
            return V("extrusion-E-not-remembered", lambda: f"get_parameter('E')={got!r}; {ctx()}")
        reached("extruded")
        return None
    return h


def cells(tier):
    out = []
    quick = tier == "quick"
    prepats = [(True, True, True), (True, False, True), (False, False, False)] if quick else PATTERNS
    for entry in ("move", "move_absolute", "rapid", "rapid_absolute"):
        for rel in (False, True):
            for prepat in prepats:
                for argpat in PATTERNS:
                    for nhooks in (1, 2, 3):
                        if nhooks == 3 and entry.startswith("rapid"):
                            continue
                        if quick and (nhooks >= 2 or entry.startswith("rapid")) and \
                                argpat not in ((True, True, True), (True, False, False)):
                            continue
                        name = (f"record|{entry}|{'rel' if rel else 'abs'}|pre="
                                + "".join("n" if a else "-" for a in prepat) + "|arg="
                                + "".join("n" if a else "-" for a in argpat) + f"|hooks={nhooks}")
                        out.append(Cell(name, _make_record(entry, rel, prepat, argpat, nhooks),
                                        budget_s=120 if quick else 600,
                                        entry="GCodeBuilder._prepare_move"))
    for rel in (False, True):
        out.append(Cell(f"record|trace-parametric|{'rel' if rel else 'abs'}", _make_trace_hook(rel),
                        budget_s=120 if quick else 600, must_reach=("linear",),
                        entry="PathTracer.parametric (emission) + hooks"))
    for rel in (False, True):
        for ext_rel in (False, True):
            for middle in ("rapid", "probe", "reset", "mode"):
                if quick and rel and middle in ("probe", "mode"):
                    continue
                out.append(Cell(f"extrusion-history|{'rel' if rel else 'abs'}|ext="
                                f"{'rel' if ext_rel else 'abs'}|middle={middle}",
                                _make_extrusion_history(rel, ext_rel, middle),
                                budget_s=120 if quick else 600, must_reach=("extruded",),
                                entry="extrusion_hook.hook_function (history)"))
    for entry in ("move", "move_absolute"):
        for rel in (False, True):
            for ext_rel in (False, True):
                for has_prev in (True, False):
                    for geom in (GEOMETRIES[:1] if quick else GEOMETRIES):
                        name = (f"extrusion|{entry}|{'rel' if rel else 'abs'}|"
                                f"ext={'rel' if ext_rel else 'abs'}|prevE={has_prev}|geom={geom}")
                        out.append(Cell(name, _make_extrusion(entry, rel, ext_rel, has_prev, geom),
                                        budget_s=120 if quick else 600,
                                        entry="extrusion_hook.hook_function"))
    out += history_variants([c for c in out if not c.name.startswith(('history', 'real-', 'two-'))])
    return out
