"""C20 — move hooks see the true move and extrusion matches path length."""

import itertools
import math

from ..runner import Cell
from ..driver import Finite, assume
from .common import *  # noqa: F401,F403

PROPERTY_ID = "C20"
FUNCTIONS = [
    "GCodeBuilder._prepare_move (hook threading)", "GCodeBuilder.add_hook/remove_hook/move_hook",
    "GCodeCore.move/move_absolute/rapid/rapid_absolute", "GCodeCore.to_absolute",
    "GCodeBuilder._update_axes/_track_move_params", "gscrib.hooks.extrusion_hook.extrusion_hook",
    "ParamsDict", "DefaultFormatter.command/parameters",
]
BOUNDS = ("(A) recording hooks: cell grid entry {move, move_absolute, rapid, rapid_absolute} x "
          "distance mode x which pre-position axes are None (quick 3, thorough 8 patterns) x which "
          "arguments are given (8) x number of hooks (1, 2); solver over the pre-position, the "
          "arguments and the E value the hook returns. Checked: each hook is called exactly once "
          "per linear move (never for rapids) with origin = resolved pre-position and target = "
          "independently computed absolute target; the parameters returned by the last hook are "
          "the ones emitted and remembered. (B) bundled extrusion hook: math.hypot inside the hook "
          "module is stubbed to return a fresh non-negative symbolic h while recording its "
          "arguments; cell grid distance mode x extrusion mode x previous-E present/absent x entry "
          "{move, move_absolute} x geometry (3 concrete (layer, nozzle, filament) triples); solver "
          "over pre-position, arguments, h in [0,1e6] and the previous E in [-1e6,1e6]. Checked: hypot arguments = XY "
          "displacement; E = area ratio * h (relative extrusion) or previous E + that (absolute). "
          "Interpolated segments: tracer frame condition (every vertex is one move()) plus a recording "
          "hook under the parametric() emission loop (two symbolic vertices).")
ASSUMPTIONS = [
    "math.hypot is stubbed (contract: Euclidean norm); geometry triples are concrete so that the "
    "E formula stays linear for z3",
    "identity transform, no bounds",
]

PATTERNS = list(itertools.product([True, False], repeat=3))


def _pick(pattern, values):
    return tuple(v if has else None for has, v in zip(pattern, values))


def _target(pos, args, rel):
    base = tuple(0 if c is None else c for c in pos)
    if rel:
        return tuple(b + (0 if a is None else a) for b, a in zip(base, args))
    return tuple(b if a is None else a for b, a in zip(base, args))


def _motion_words(rec):
    """Words of the (single) G1/G0 block among the emitted lines."""
    found = []
    for line in split_lines(rec.text()):
        words = parse_block(strip_comments(line, ";")[0], tokens())
        if any(w.letter == "G" and canon_code("G", w.text) in ("G0", "G1") for w in words):
            found.append(words)
    if len(found) != 1:
        raise Malformed(f"expected exactly one motion block, got {len(found)}: {rec.text()!r}")
    return found[0]


def _make_record(entry, rel, prepat, argpat, nhooks):
    def h(px: Finite, py: Finite, pz: Finite, ax: Finite, ay: Finite, az: Finite, e1: Finite,
          e2: Finite):
        pos = _pick(prepat, (px, py, pz))
        args = _pick(argpat, (ax, ay, az))
        pre = mkpre(pos=pos, relative=rel)
        g, rec = prepare(pre)
        calls = []

        def hook_a(origin, target, params, state):
            calls.append(("a", tuple(origin), tuple(target), dict(params), state is g.state))
            params.update(E=e1)
            return params

        def hook_b(origin, target, params, state):
            calls.append(("b", tuple(origin), tuple(target), dict(params), state is g.state))
            out = type(params)(params)      # a NEW ParamsDict
            out.update(E=e2, Q=7.0)
            return out

        g.add_hook(hook_a)
        if nhooks == 2:
            g.add_hook(hook_b)
        kw = {k: v for k, v in zip("xyz", args) if v is not None}
        e = attempt(getattr(g, entry), **kw)
        if e is not None:
            msg = f"{exc_name(e)}: {e}"
            return V(f"{entry}-unexpected-exception", msg)
        linear = entry in ("move", "move_absolute")
        ctx = lambda: (f"entry={entry} rel={rel} pos={pos!r} args={args!r} calls={calls!r} "  # noqa: E731
                       f"output={rec.text()!r}")
        if not linear:
            if calls:
                return V(f"{entry}-hook-called-for-rapid", ctx)
            reached("rapid")
            return None
        if len(calls) != nhooks or [c[0] for c in calls] != ["a", "b"][:nhooks]:
            return V(f"{entry}-hook-call-count-or-order", ctx)
        origin_want = tuple(0 if c is None else c for c in pos)
        # move_absolute always targets absolute coordinates, whatever the distance mode
        target_want = _target(pos, args, rel and entry == "move")
        for tag, origin, target, params, same_state in calls:
            if not same_state:
                return V(f"{entry}-hook-got-wrong-state-object", ctx)
            for i in range(3):
                if not num_eq(origin[i], origin_want[i]):
                    return V(f"{entry}-hook-origin-wrong",
                             lambda: f"hook {tag}: origin {origin!r}, expected {origin_want!r}; {ctx()}")
                if not num_eq(target[i], target_want[i]):
                    return V(f"{entry}-hook-target-wrong",
                             lambda: f"hook {tag}: target {target!r}, expected {target_want!r}; {ctx()}")
        e_want = e2 if nhooks == 2 else e1
        try:
            words = _motion_words(rec)
        except Malformed as mf:
            return V(f"{entry}-malformed-output", str(mf))
        emitted = {w.letter: w.value for w in words}
        if "E" not in emitted or not num_eq(emitted["E"], e_want):
            return V(f"{entry}-hook-parameters-not-emitted",
                     lambda: f"E emitted {emitted.get('E')!r}, hook returned {e_want!r}; {ctx()}")
        if nhooks == 2 and ("Q" not in emitted or not num_eq(emitted["Q"], 7.0)):
            return V(f"{entry}-hook-parameters-not-emitted", lambda: f"Q missing; {ctx()}")
        got = g.get_parameter("E")
        if got is None or not num_eq(got, e_want):
            return V(f"{entry}-hook-parameters-not-remembered",
                     lambda: f"get_parameter('E')={got!r}, hook returned {e_want!r}; {ctx()}")
        sgot = g.state.get_parameter("E")
        if sgot is None or not num_eq(sgot, e_want):
            return V(f"{entry}-hook-parameters-not-remembered-by-state",
                     lambda: f"state.get_parameter('E')={sgot!r}, hook returned {e_want!r}; {ctx()}")
        reached("linear")
        return None
    return h


def _make_trace_hook(rel):
    """Each interpolated segment is one linear move: the hook is called once per vertex with the
    previous vertex as origin and the vertex as target (parametric() emission loop, stubbed curve)."""
    def h(px: Finite, py: Finite, ax: Finite, ay: Finite, bx: Finite, by: Finite):
        pos = (px, py, 1.0)
        pre = mkpre(pos=pos, relative=rel)
        g, rec = prepare(pre)
        calls = []

        def hook(origin, target, params, state):
            calls.append((tuple(origin), tuple(target)))
            params.update(E=len(calls) * 1.5)
            return params

        g.add_hook(hook)
        verts = [(ax, ay, 2.0), (bx, by, -3.0)]
        g.trace._filter_segments = lambda pts: pts
        e = attempt(g.trace.parametric, lambda thetas: verts, 10.0)
        if e is not None:
            msg = f"{exc_name(e)}: {e}"
            return V("trace-hook-unexpected-exception", msg)
        if len(calls) != 2:
            return V("trace-hook-not-called-once-per-segment", lambda: f"{calls!r}")
        want = [(pos, verts[0]), (verts[0], verts[1])]
        for (o, t), (wo, wt) in zip(calls, want):
            for i in range(3):
                if not num_eq(o[i], wo[i]) or not num_eq(t[i], wt[i]):
                    return V("trace-hook-saw-a-wrong-segment",
                             lambda: f"hook calls {calls!r}, expected {want!r}")
        got = g.get_parameter("E")
        if got is None or not num_eq(got, 3.0):
            return V("trace-hook-parameters-not-remembered", lambda: f"E={got!r}")
        reached("linear")
        return None
    return h


class _MathStub:
    """math for gscrib.hooks.extrusion_hook: hypot returns the harness' symbolic h."""

    def __init__(self, h):
        self.h = h
        self.calls = []
        self.pi = math.pi

    def hypot(self, *args):
        self.calls.append(args)
        return self.h

    def __getattr__(self, name):
        return getattr(math, name)


GEOMETRIES = [(0.2, 0.4, 1.75), (0.3, 0.6, 2.85), (0.1, 0.25, 1.75)]


def _make_extrusion(entry, rel, ext_rel, has_prev, geom):
    import importlib
    eh_mod = importlib.import_module("gscrib.hooks.extrusion_hook")
    layer, nozzle, filament = geom
    ratio = (nozzle * layer) / (math.pi * (filament / 2.0) * (filament / 2.0))

    def h(px: Finite, py: Finite, pz: Finite, ax: Finite, ay: Finite, hyp: Finite, e0: Finite):
        assume(hyp >= 0)
        assume(hyp <= 1e6)
        assume(e0 >= -1e6)
        assume(e0 <= 1e6)
        pos = (px, py, pz)
        args = (ax, ay, None)
        params = {"E": e0} if has_prev else {}
        pre = mkpre(pos=pos, relative=rel, extrusion="relative" if ext_rel else "absolute",
                    params=params)
        g, rec = prepare(pre)
        stub = _MathStub(hyp)
        old_math = eh_mod.math
        if MODE.symbolic:
            eh_mod.math = stub
        try:
            g.add_hook(eh_mod.extrusion_hook(layer, nozzle, filament))
            e = attempt(getattr(g, entry), x=ax, y=ay)
        finally:
            eh_mod.math = old_math
        if e is not None:
            msg = f"{exc_name(e)}: {e}"
            return V(f"extrusion-{entry}-unexpected-exception", msg)
        target = _target(pos, args, rel and entry == "move")
        dx, dy = target[0] - px, target[1] - py
        ctx = lambda: (f"entry={entry} rel={rel} extrusion_relative={ext_rel} pos={pos!r} "  # noqa: E731
                       f"args=({ax!r},{ay!r}) prev E={'%r' % (e0,) if has_prev else None} "
                       f"output={rec.text()!r}")
        if MODE.symbolic:
            if len(stub.calls) != 1 or len(stub.calls[0]) != 2:
                return V("extrusion-hypot-call-shape", lambda: f"calls={stub.calls!r}; {ctx()}")
            hx, hy = stub.calls[0]
            if not (num_eq(hx, dx) and num_eq(hy, dy)):
                return V("extrusion-length-not-the-xy-displacement",
                         lambda: f"hypot({hx!r}, {hy!r}), XY displacement is ({dx!r}, {dy!r}); {ctx()}")
            length = hyp
        else:
            length = math.hypot(dx, dy)
        amount = ratio * length
        want = amount if ext_rel else ((e0 if has_prev else 0.0) + amount)
        try:
            words = _motion_words(rec)
        except Malformed as mf:
            return V("extrusion-malformed-output", str(mf))
        emitted = {w.letter: w.value for w in words}
        if "E" not in emitted:
            return V("extrusion-no-E-word", ctx)
        d = emitted["E"] - want
        tol = 1e-9 if MODE.symbolic else 1e-4
        if d > tol or -d > tol:
            return V("extrusion-amount-wrong",
                     lambda: f"E={emitted['E']!r}, expected {want!r} (ratio {ratio!r} x length "
                             f"{length!r}); {ctx()}")
        got = g.get_parameter("E")
        if got is None or (got - want) > tol or (want - got) > tol:
            return V("extrusion-E-not-remembered", lambda: f"get_parameter('E')={got!r}; {ctx()}")
        reached("extruded")
        return None
    return h


def cells(tier):
    out = []
    quick = tier == "quick"
    prepats = [(True, True, True), (True, False, True), (False, False, False)] if quick else PATTERNS
    for entry in ("move", "move_absolute", "rapid", "rapid_absolute"):
        for rel in (False, True):
            for prepat in prepats:
                for argpat in PATTERNS:
                    for nhooks in (1, 2):
                        if quick and (nhooks == 2 or entry.startswith("rapid")) and \
                                argpat not in ((True, True, True), (True, False, False)):
                            continue
                        name = (f"record|{entry}|{'rel' if rel else 'abs'}|pre="
                                + "".join("n" if a else "-" for a in prepat) + "|arg="
                                + "".join("n" if a else "-" for a in argpat) + f"|hooks={nhooks}")
                        out.append(Cell(name, _make_record(entry, rel, prepat, argpat, nhooks),
                                        budget_s=120 if quick else 600,
                                        entry="GCodeBuilder._prepare_move"))
    for rel in (False, True):
        out.append(Cell(f"record|trace-parametric|{'rel' if rel else 'abs'}", _make_trace_hook(rel),
                        budget_s=120 if quick else 600, must_reach=("linear",),
                        entry="PathTracer.parametric (emission) + hooks"))
    for entry in ("move", "move_absolute"):
        for rel in (False, True):
            for ext_rel in (False, True):
                for has_prev in (True, False):
                    for geom in (GEOMETRIES[:1] if quick else GEOMETRIES):
                        name = (f"extrusion|{entry}|{'rel' if rel else 'abs'}|"
                                f"ext={'rel' if ext_rel else 'abs'}|prevE={has_prev}|geom={geom}")
                        out.append(Cell(name, _make_extrusion(entry, rel, ext_rel, has_prev, geom),
                                        budget_s=120 if quick else 600,
                                        entry="extrusion_hook.hook_function"))
    return out
