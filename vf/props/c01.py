"""C01 — the emitted program reproduces the tracked position (inductive step)."""

import itertools

from ..runner import Cell
from ..driver import Finite, assume
from .common import *  # noqa: F401,F403

PROPERTY_ID = "C01"
FUNCTIONS = [
    "GCodeCore.move", "GCodeCore.rapid", "GCodeCore.move_absolute", "GCodeCore.rapid_absolute",
    "GCodeBuilder.set_axis", "GCodeBuilder.auto_home", "GCodeBuilder.probe",
    "GCodeBuilder.set_distance_mode", "GCodeCore.absolute_mode", "GCodeCore.relative_mode",
    "GCodeCore.to_absolute", "GCodeCore._transform_move", "GCodeCore._process_move_params",
    "GCodeBuilder._prepare_move", "GCodeBuilder._prepare_rapid", "GCodeBuilder._update_axes",
    "GCodeCore._update_axes", "GState._set_axes", "Point.resolve/replace/mask/combine/__add__/__sub__",
    "Transform.apply (identity matrix)", "DefaultFormatter.command/parameters/number/comment/line",
    "GCodeCore.write", "GCodeBuilder._get_statement",
]
BOUNDS = ("Inductive step from any pre-state satisfying I1 (machine-known axis => builder has the "
          "same coordinate; builder, state object and machine agree on G90/G91). Cell grid: entry "
          "point {move, rapid, move_absolute, rapid_absolute, set_axis, auto_home, probe x4, "
          "set_distance_mode x2, absolute_mode/relative_mode contexts (plain, nested, raising "
          "body)} x distance mode x which pre-position axes are None (8) x which argument axes "
          "are None (8) x positional/keyword form. Solver over: all three pre-coordinates, all "
          "three arguments (finite reals), and per axis whether the machine knows it. Identity "
          "transform only. Interpolated paths: the tracer frame condition (AST scan) reduces "
          "every vertex to one move() call, and the tracer's own emission code (polyline; the "
          "parametric() loop with curve function and segment filter stubbed) is run on two symbolic "
          "vertices from every kind of pre-state. Plus TRUE histories from a freshly constructed builder "
          "(no private pre-state, no invariant assumed): every pair of 15 motion calls and every "
          "triple over an 8-call core alphabet (thorough: every triple), I1 checked after every call.")
ASSUMPTIONS = [
    "arguments and coordinates are finite reals (non-finite arguments are C05/C08's subject)",
    "no bounds configured, no hooks, identity transform",
    "tracer frame condition: PathTracer touches the builder only via position, state, "
    "to_absolute, to_absolute_list, to_distance_mode and move (checked syntactically each run)",
]

PATTERNS = list(itertools.product([True, False], repeat=3))  # True = has a number
PROBES = ["towards", "towards-no-error", "away", "away-no-error"]


def _pick(pattern, values):
    return tuple(v if has else None for has, v in zip(pattern, values))


def _check_after(g, m, rec, pre, what):
    try:
        m.run_text(rec.text(), pre["line_ending"])
    except Malformed as mf:
        return V(f"{what}-malformed-output", str(mf))
    pos = g.position
    for i, a in enumerate("XYZ"):
        if m.pos[a] is not None:
            if pos[i] is None:
                return V(f"{what}-machine-knows-axis-builder-does-not",
                         lambda: f"axis {a}: machine at {m.pos[a]!r}, builder reports None; output={rec.text()!r}")
            if not num_eq(m.pos[a], pos[i]):
                return V(f"{what}-position-mismatch",
                         lambda: f"axis {a}: machine at {m.pos[a]!r}, builder reports {pos[i]!r}; "
                         f"output={rec.text()!r}")
    if not hasattr(g, "state"):          # the base class used directly has no state object
        if (g.distance_mode.value == "relative") != m.relative:
            return V(f"{what}-distance-mode-mismatch",
                     lambda: f"core reports {g.distance_mode.value}, machine relative={m.relative}; "
                     f"output={rec.text()!r}")
        return None
    spos = g.state.position
    for i, a in enumerate("XYZ"):
        # the state object's copy must agree wherever the machine coordinate is known (before the
        # first motion call it reports 0 for axes nobody knows: not covered by the property)
        if m.pos[a] is not None and not num_eq(spos[i], pos[i]):
            return V(f"{what}-state-position-differs",
                     lambda: f"builder.position={tuple(pos)!r} state.position={tuple(spos)!r}")
    if g.distance_mode.value != g.state.distance_mode.value:
        return V(f"{what}-state-mode-differs", lambda: f"{g.distance_mode} vs {g.state.distance_mode}")
    if (g.distance_mode.value == "relative") != m.relative:
        return V(f"{what}-distance-mode-mismatch",
                 lambda: f"builder reports {g.distance_mode.value}, machine relative={m.relative}; "
                 f"output={rec.text()!r}")
    return None


def _kwargs(args):
    return {k: v for k, v in zip("xyz", args) if v is not None}


def _do_entry(g, entry, args, form):
    if entry.startswith("probe:"):
        mode = entry.split(":")[1]
        if form == "point":
            return attempt(g.probe, mode, list(args))
        return attempt(g.probe, mode, **_kwargs(args))
    fn = getattr(g, entry)
    if form == "point":
        return attempt(fn, list(args))
    return attempt(fn, **_kwargs(args))


def _make_motion(entry, prepat, argpat, rel, form, dp=None):
    def h(px: Finite, py: Finite, pz: Finite, ax: Finite, ay: Finite, az: Finite,
          kx: bool, ky: bool, kz: bool):
        pos = _pick(prepat, (px, py, pz))
        args = _pick(argpat, (ax, ay, az))
        pre = mkpre(pos=pos, relative=rel, mknown=(kx, ky, kz), decimal_places=dp)
        if dp is not None:
            MODE.decimal_places = dp   # replay tolerance follows the configured precision
        g, rec = prepare(pre)
        m = machine_for(pre, rec)
        e = _do_entry(g, entry, args, form)
        if e is not None:
            return V(f"{entry}-unexpected-exception", lambda: f"{exc_name(e)}: {e} (pos={pos!r}, args={args!r})")
        reached("emitted")
        return _check_after(g, m, rec, pre, entry)
    return h


def _make_mode(target, prepat, rel):
    def h(px: Finite, py: Finite, pz: Finite, kx: bool, ky: bool, kz: bool):
        pos = _pick(prepat, (px, py, pz))
        pre = mkpre(pos=pos, relative=rel, mknown=(kx, ky, kz))
        g, rec = prepare(pre)
        m = machine_for(pre, rec)
        e = attempt(g.set_distance_mode, target)
        if e is not None:
            return V("set_distance_mode-unexpected-exception", lambda: f"{exc_name(e)}: {e}")
        if (g.distance_mode.value == "relative") != (target == "relative"):
            return V("set_distance_mode-not-applied", lambda: f"mode is {g.distance_mode}")
        reached("emitted")
        return _check_after(g, m, rec, pre, "set_distance_mode")
    return h


class _Boom(Exception):
    pass


def _make_ctx(kind, prepat, argpat, rel, inner_entry):
    """kind: 'abs', 'rel', 'abs-in-rel', 'rel-in-abs', 'abs-raise', 'rel-raise',
    'abs-switch' (body switches the mode itself)."""
    def h(px: Finite, py: Finite, pz: Finite, ax: Finite, ay: Finite, az: Finite,
          kx: bool, ky: bool, kz: bool):
        pos = _pick(prepat, (px, py, pz))
        args = _pick(argpat, (ax, ay, az))
        pre = mkpre(pos=pos, relative=rel, mknown=(kx, ky, kz))
        g, rec = prepare(pre)
        m = machine_for(pre, rec)
        err = []

        def body():
            e = _do_entry(g, inner_entry, args, "kw")
            if e is not None:
                err.append(e)
            v = _check_after(g, RefMachineClone(m), rec, pre, f"ctx-{kind}-body")
            if v is not None:
                err.append(v)

        try:
            if kind == "abs":
                with g.absolute_mode():
                    body()
            elif kind == "rel":
                with g.relative_mode():
                    body()
            elif kind == "abs-in-rel":
                with g.relative_mode():
                    with g.absolute_mode():
                        body()
                    body()
            elif kind == "rel-in-abs":
                with g.absolute_mode():
                    with g.relative_mode():
                        body()
                    body()
            elif kind == "abs-raise":
                with g.absolute_mode():
                    body()
                    raise _Boom()
            elif kind == "rel-raise":
                with g.relative_mode():
                    body()
                    raise _Boom()
            elif kind == "abs-switch":
                with g.absolute_mode():
                    g.set_distance_mode("relative")
                    body()
            elif kind == "rel-switch":
                with g.relative_mode():
                    g.set_distance_mode("absolute")
                    body()
        except _Boom:
            pass
        except Exception as e:  # noqa: BLE001
            msg = f"{exc_name(e)}: {e}"
            return V(f"ctx-{kind}-unexpected-exception", msg)
        for x in err:
            if isinstance(x, V):
                return x
            return V(f"ctx-{kind}-body-unexpected-exception", lambda: f"{exc_name(x)}: {x}")
        if (g.distance_mode.value == "relative") != rel:
            return V(f"ctx-{kind}-mode-not-restored",
                     lambda: f"entered in {'relative' if rel else 'absolute'}, left in {g.distance_mode.value}")
        reached("emitted")
        return _check_after(g, m, rec, pre, f"ctx-{kind}")
    return h


def RefMachineClone(m):
    c = RefMachine(m.tokens, m.opener)
    c.pos = dict(m.pos)
    c.relative = m.relative
    return c


def frame_condition():
    """AST scan of gscrib/geometry/tracer.py (regenerated every run)."""
    import ast, inspect
    import gscrib.geometry.tracer as tr
    src = inspect.getsource(tr)
    tree = ast.parse(src)
    allowed = {"position", "state", "to_absolute", "to_absolute_list", "to_distance_mode", "move"}
    allowed_state = {"direction", "resolution"}
    bad = []
    for node in ast.walk(tree):
        if isinstance(node, ast.Attribute) and isinstance(node.value, ast.Attribute):
            inner = node.value
            if (isinstance(inner.value, ast.Name) and inner.value.id == "self"
                    and inner.attr == "_g" and node.attr not in allowed):
                bad.append(f"self._g.{node.attr} (line {node.lineno})")
            if (isinstance(inner.value, ast.Attribute) and isinstance(inner.value.value, ast.Name)
                    and inner.value.value.id == "self" and inner.value.attr == "_g"
                    and inner.attr == "state" and node.attr not in allowed_state):
                bad.append(f"self._g.state.{node.attr} (line {node.lineno})")
        if isinstance(node, (ast.Assign, ast.AugAssign)):
            targets = node.targets if isinstance(node, ast.Assign) else [node.target]
            for t in targets:
                if isinstance(t, ast.Attribute) and "_g" in ast.dump(t) and not (
                        isinstance(t.value, ast.Name) and t.value.id == "self" and t.attr == "_g"):
                    bad.append(f"assignment through self._g (line {node.lineno})")
    # every other name that could alias the builder
    for node in ast.walk(tree):
        if isinstance(node, ast.Call) and isinstance(node.func, ast.Name) and node.func.id in (
                "getattr", "setattr", "exec", "eval"):
            bad.append(f"dynamic access {node.func.id} (line {node.lineno})")
    return bad


def validate():
    """Shim validation: concrete calls with and without shims give the same words/positions."""
    from ..shims import installed
    from ..mode import MODE
    failures = []
    samples = [
        ("move", dict(x=1.5, y=-2.25, z=3.0)), ("rapid", dict(x=0.0, y=10.0)),
        ("move", dict(z=1e-7)), ("move", dict(x=123456.789012, F=1200)),
        ("set_axis", dict(x=1.0, z=2.0)), ("move_absolute", dict(y=4.125)),
    ]
    old = MODE.symbolic
    for rel in (False, True):
        outs = []
        for use_shim in (False, True):
            MODE.symbolic = use_shim
            pre = mkpre(pos=(1.0, 2.0, 3.0), relative=rel)
            if use_shim:
                with installed() as toks:
                    g, rec = build(pre, "private")
                    for name, kw in samples:
                        getattr(g, name)(**kw)
                    m = RefMachine(toks)
                    m.pos = {"X": 1.0, "Y": 2.0, "Z": 3.0}
                    m.relative = rel
                    m.run_text(rec.text())
                    outs.append((tuple(g.position), dict(m.pos)))
            else:
                g, rec = build(pre, "private")
                for name, kw in samples:
                    getattr(g, name)(**kw)
                m = RefMachine(None)
                m.pos = {"X": 1.0, "Y": 2.0, "Z": 3.0}
                m.relative = rel
                m.run_text(rec.text())
                outs.append((tuple(g.position), dict(m.pos)))
        (p0, m0), (p1, m1) = outs
        if p0 != p1:
            failures.append(f"builder position differs with shims: {p0} vs {p1}")
        for a in "XYZ":
            if abs(m0[a] - m1[a]) > 1e-5:
                failures.append(f"machine {a} differs with shims: {m0[a]} vs {m1[a]}")
    MODE.symbolic = old
    # the frame condition is a syntactic side condition: if the tracer starts touching the builder
    # through something else, the reduction "every vertex is one move()" no longer follows from the
    # scan alone; this is reported in the evidence (not an alarm: the tracer emission cells and the
    # other checks still run on the real code)
    fc = frame_condition()
    if fc:
        print(f"NOTE property=C01 tracer frame condition no longer holds syntactically: {fc[:3]}")
    return {"checked": len(samples) * 2, "failures": failures, "frame_condition_violations": fc}


def _make_tracer_emission(kind, rel, prepat):
    """Interpolated paths: the emission loop of the tracer (to_absolute_list / to_distance_mode +
    move per vertex) on symbolic vertices, from a pre-state satisfying I1."""
    def h(px: Finite, py: Finite, pz: Finite, ax: Finite, ay: Finite, bx: Finite, by: Finite,
          kx: bool, ky: bool, kz: bool):
        pos = _pick(prepat, (px, py, pz))
        pre = mkpre(pos=pos, relative=rel, mknown=(kx, ky, kz))
        g, rec = prepare(pre)
        m = machine_for(pre, rec)
        if kind == "polyline":
            # polyline takes targets in the current distance mode
            e = attempt(g.trace.polyline, [(ax, 1.5), (bx, 5.0, 4.0)])
        else:
            verts = [(ax, 2.5, 2.0), (bx, 5.0, -3.0)]   # absolute sample points of a curve
            g.trace._filter_segments = lambda pts: pts
            e = attempt(g.trace.parametric, lambda thetas: verts, 10.0)
        if e is not None:
            msg = f"{exc_name(e)}: {e}"
            return V(f"trace-{kind}-unexpected-exception", msg)
        reached("emitted")
        v = _check_after(g, m, rec, pre, f"trace-{kind}")
        if v is not None:
            return v
        if kind == "parametric":
            for i, want in enumerate((bx, 5.0, -3.0)):
                if not num_eq(g.position[i], want):
                    return V("trace-parametric-does-not-end-on-the-last-sample",
                             lambda: f"position {tuple(g.position)!r}, last sample ({bx!r},{by!r},-3.0)")
        return None
    return h


HIST = {
    "move(x)": lambda g, a: g.move(x=a),
    "move(y,z)": lambda g, a: g.move(y=a, z=2.5),
    "rapid(z)": lambda g, a: g.rapid(z=a),
    "move_absolute(x)": lambda g, a: g.move_absolute(x=a),
    "rapid_absolute(x,y)": lambda g, a: g.rapid_absolute(x=a, y=0.5),
    "set_axis(x)": lambda g, a: g.set_axis(x=a),
    "set_axis(y,z)": lambda g, a: g.set_axis(y=a, z=-1.5),
    "auto_home(x)": lambda g, a: g.auto_home(x=a),
    "auto_home()": lambda g, a: g.auto_home(),
    "probe(z)": lambda g, a: g.probe("towards", z=a),
    "relative": lambda g, a: g.set_distance_mode("relative"),
    "absolute": lambda g, a: g.set_distance_mode("absolute"),
    "polyline": lambda g, a: g.trace.polyline([(a, 1.5), (2.5, a)]),
}


def _hist_ctx(g, kind, a):
    if kind == "in-absolute_mode":
        with g.absolute_mode():
            g.move(x=a)
    else:
        with g.relative_mode():
            g.move(y=a)


HIST["in-absolute_mode"] = lambda g, a: _hist_ctx(g, "in-absolute_mode", a)
HIST["in-relative_mode"] = lambda g, a: _hist_ctx(g, "in-relative_mode", a)


CORE_HIST = ["move(x)", "move(y,z)", "rapid(z)", "move_absolute(x)", "rapid_absolute(x,y)", "set_axis(x)",
             "set_axis(y,z)", "relative", "absolute", "in-absolute_mode", "in-relative_mode"]


def _make_history(seq, start="fresh"):
    """A TRUE history from a freshly constructed builder (all axes unknown, no private pre-state,
    no invariant assumed): I1 must hold after every call. start="rel": the history begins with the
    public calls move(x=1.5, y=2.5, z=3.5); set_distance_mode("relative")."""
    from gscrib import GCodeBuilder
    from ..fixture import Rec

    def core(vals):
        from ..shims import TOKENS
        if MODE.symbolic:
            TOKENS.clear()
        if start.startswith("core"):
            from gscrib import GCodeCore
            g = GCodeCore(line_endings="\\n")
        else:
            g = GCodeBuilder(line_endings="\\n")
        rec = Rec()
        g.add_writer(rec)
        pre = mkpre()
        if start in ("rel", "core-rel"):
            g.move(x=1.5, y=2.5, z=3.5)
            g.set_distance_mode("relative")
        for k, (name, a) in enumerate(zip(seq, vals)):
            e = attempt(HIST[name], g, a)
            if e is not None:
                msg = f"{exc_name(e)}: {e}"
                return V("history-unexpected-exception", lambda: f"{seq[:k + 1]}: {msg}")
            m = RefMachine(tokens())
            v = _check_after(g, m, rec, pre, "history")
            if v is not None:
                inner = v
                return V(inner.kind, lambda: inner.text() + f" | after {seq[:k + 1]} with values {vals[:k + 1]!r}")
        reached("emitted")
        return None

    if len(seq) == 2:
        def h(a: Finite, b: Finite):
            return core([a, b])
    else:
        def h(a: Finite, b: Finite, c: Finite):
            return core([a, b, c])
    return h


def _pname(p):
    return "".join("n" if has else "-" for has in p)


def cells(tier):
    out = []
    quick = tier == "quick"
    budget = 120 if quick else 600
    motion = ["move", "rapid", "move_absolute", "rapid_absolute", "set_axis", "auto_home"] + [
        f"probe:{p}" for p in PROBES]
    for entry in motion:
        if quick and entry.startswith("probe:") and entry != "probe:towards":
            continue
        for rel in (False, True):
            for prepat in PATTERNS:
                for argpat in PATTERNS:
                    for form in ("kw", "point"):
                        if form == "point" and quick and prepat != (True, True, True):
                            continue
                        if quick and prepat not in ((True, True, True), (True, False, True),
                                                    (False, False, False)):
                            continue
                        name = f"{entry}|{'rel' if rel else 'abs'}|pre={_pname(prepat)}|arg={_pname(argpat)}|{form}"
                        out.append(Cell(name, _make_motion(entry, prepat, argpat, rel, form),
                                        budget_s=budget, must_reach=("emitted",),
                                        entry=f"GCodeBuilder.{entry.split(':')[0]}"))
    # high output precision: anything that touches the numbers on one path only (emitted words vs
    # tracked position) shows up beyond the 5 default decimals
    for entry in ("move", "rapid", "move_absolute", "probe:towards", "set_axis"):
        for rel in (False, True):
            for argpat in ((True, True, True), (True, False, False)) if quick else PATTERNS:
                name = f"{entry}|{'rel' if rel else 'abs'}|pre=nnn|arg={_pname(argpat)}|kw|dp=12"
                out.append(Cell(name, _make_motion(entry, (True, True, True), argpat, rel, "kw", dp=12),
                                budget_s=budget, must_reach=("emitted",),
                                entry=f"GCodeBuilder.{entry.split(':')[0]}"))
    for target in ("absolute", "relative"):
        for rel in (False, True):
            for prepat in PATTERNS:
                name = f"set_distance_mode:{target}|{'rel' if rel else 'abs'}|pre={_pname(prepat)}"
                out.append(Cell(name, _make_mode(target, prepat, rel), budget_s=budget,
                                must_reach=("emitted",), entry="GCodeBuilder.set_distance_mode"))
    for kind in ("polyline", "parametric"):
        for rel in (False, True):
            for prepat in ([(True, True, True), (False, True, False), (False, False, False)]
                           if quick else PATTERNS):
                name = f"trace:{kind}|{'rel' if rel else 'abs'}|pre={_pname(prepat)}"
                out.append(Cell(name, _make_tracer_emission(kind, rel, prepat), budget_s=budget,
                                must_reach=("emitted",), entry=f"PathTracer.{kind} (emission)"))
    names = list(HIST)
    hseqs = list(itertools.product(names, repeat=2))
    core3 = ["move(x)", "move(y,z)", "set_axis(x)", "auto_home(x)", "probe(z)", "relative",
             "in-absolute_mode", "move_absolute(x)", "rapid_absolute(x,y)"]
    hseqs += list(itertools.product(core3 if quick else names, repeat=3))
    core_seqs = list(itertools.product(CORE_HIST, repeat=2))
    core_seqs += [(a, b, c) for a in ("move(x)", "move(y,z)", "relative") for b in CORE_HIST
                  for c in ("move(x)", "move(y,z)", "rapid_absolute(x,y)")] if quick else \
        list(itertools.product(CORE_HIST, repeat=3))
    for start in ("core", "core-rel"):
        for seq in core_seqs:
            out.append(Cell(f"history|{start}|" + ",".join(seq), _make_history(seq, start), budget_s=budget,
                            must_reach=("emitted",), entry="GCodeCore used directly (history from a fresh object)"))
    for start in ("fresh", "rel"):
        for seq in hseqs:
            out.append(Cell(f"history|{start}|" + ",".join(seq), _make_history(seq, start), budget_s=budget,
                            must_reach=("emitted",), entry="GCodeBuilder (history from a fresh builder)"))
    kinds = ["abs", "rel", "abs-in-rel", "rel-in-abs", "abs-raise", "rel-raise", "abs-switch",
             "rel-switch"]
    for kind in kinds:
        for rel in (False, True):
            for inner in ("move", "rapid_absolute") if quick else ("move", "rapid", "move_absolute",
                                                                  "rapid_absolute", "set_axis"):
                for prepat in ([(True, True, True), (False, True, False)]
                               if quick else PATTERNS):
                    for argpat in ([(True, False, True), (False, True, True)]
                                   if quick else PATTERNS):
                        name = (f"ctx:{kind}:{inner}|{'rel' if rel else 'abs'}|pre={_pname(prepat)}"
                                f"|arg={_pname(argpat)}")
                        out.append(Cell(name, _make_ctx(kind, prepat, argpat, rel, inner),
                                        budget_s=budget, must_reach=("emitted",),
                                        entry="GCodeCore.absolute_mode/relative_mode"))
    return out
