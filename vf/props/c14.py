"""C14 — every writer receives every line, once, in order (writer bookkeeping and FileWriter
logic; real io objects are outside the technique)."""

import itertools
import os
import tempfile

from ..runner import Cell
from ..driver import FixedStr, assume
from ..mode import MODE, V, reached
from ..fixture import Rec

PROPERTY_ID = "C14"
FUNCTIONS = [
    "GCodeCore.add_writer/remove_writer/get_writer/write/flush/teardown/__exit__",
    "GCodeBuilder.write", "FileWriter.connect/write/flush/disconnect (lazy connect, text/binary "
    "conversion, closes only what it opened)", "DefaultFormatter.line",
]
BOUNDS = ("Histories are ENUMERATED: every sequence of up to 3 (quick) / 4 (thorough) operations over "
          "{add/remove a custom writer A, add custom writer B, add/remove a FileWriter on a text "
          "stream, add a FileWriter on a binary stream, add the same writer twice, emit a comment, "
          "emit a move, flush, teardown}, followed by one final emit. Streams are pure-Python "
          "file-like stubs (with / without an `encoding` attribute, recording write/flush/close). "
          "Solver over: the text of every emitted comment (1 symbolic code point each, no line "
          "breaks). Checked after the history: each writer received exactly the lines emitted "
          "while it was registered, once, in order, identical for all writers; a text stream got "
          "the decoded text and a binary stream the bytes; flush reached every registered file "
          "writer; teardown disconnected every writer, emptied the list and did not close streams "
          "the caller supplied. Plus CONCRETE (not solver-decided) cells with a path-based FileWriter on a real "
          "temporary file: every history of up to 3/4 steps over {emit, remove + re-add the writer, "
          "flush} ending in teardown leaves exactly the concatenation of the lines in the file; and with a "
          "FileWriter on a real buffered file object the caller opened: every valid history of up to 5 "
          "(thorough 6) steps over {emit, remove_writer, add_writer, flush}: after each flush() issued "
          "while the writer is registered the file on disk holds every line written to it.")
ASSUMPTIONS = [
    "io objects are stubs: real files/streams (C-implemented io, the file system, buffering) are "
    "only exercised by the concrete path-based cells",
    "bytes(line, 'utf-8') is stubbed as an injective encoding for symbolic text, so 'the same UTF-8 "
    "bytes' is decided only as 'the same text'",
]


class TextStream:
    """User-supplied text stream: has .encoding, accepts str."""
    encoding = "utf-8"

    def __init__(self):
        self.parts, self.flushes, self.closed, self.bad = [], 0, False, []

    def write(self, s):
        if hasattr(s, "decode") and not isinstance(s, str):
            self.bad.append(s)
        self.parts.append(s)

    def flush(self):
        self.flushes += 1

    def close(self):
        self.closed = True

    def isatty(self):
        return False


class BinStream:
    """User-supplied binary stream: no .encoding, accepts bytes-like."""

    def __init__(self):
        self.parts, self.flushes, self.closed, self.bad = [], 0, False, []

    def write(self, b):
        if isinstance(b, str):
            self.bad.append(b)
        self.parts.append(b)

    def flush(self):
        self.flushes += 1

    def close(self):
        self.closed = True


def _as_text(x):
    return x if isinstance(x, str) else x.decode("utf-8")


OPS = ["addA", "addB", "addT", "addBin", "addA-again", "remA", "remT", "emitC", "emitM", "flush",
       "teardown"]


def _make(seq):
    from gscrib import GCodeBuilder
    from gscrib.writers import FileWriter
    n_emit = sum(1 for op in seq if op == "emitC") + 1

    def core(texts):
        for t in texts:
            for ch in t:
                assume(ch != "\n")
                assume(ch != "\r")
        g = GCodeBuilder()
        ref = Rec()                 # registered from the start: the reference stream
        g.add_writer(ref)
        A, B = Rec(), Rec()
        ts, bs = TextStream(), BinStream()
        FT, FB = FileWriter(ts), FileWriter(bs)
        objs = {"A": A, "B": B, "T": FT, "Bin": FB}
        registered = ["ref"]
        expect = {"ref": [], "A": [], "B": [], "T": [], "Bin": []}
        flush_expect = {"T": 0, "Bin": 0}
        torn = False
        k = 0
        log = []

        def emit(kind):
            nonlocal k
            before = len(ref.chunks)
            if kind == "C":
                g.comment(texts[k])
                k += 1
            else:
                g.move(x=1.5)
            new = ref.chunks[before:]
            return new

        def account(new):
            for name in registered:
                if name != "ref":
                    expect[name].extend(new)

        for op in list(seq) + ["emitC"]:
            log.append(op)
            try:
                if op in ("addA", "addA-again"):
                    g.add_writer(A)
                    if "A" not in registered:
                        registered.append("A")
                elif op == "addB":
                    g.add_writer(B)
                    if "B" not in registered:
                        registered.append("B")
                elif op == "addT":
                    g.add_writer(FT)
                    if "T" not in registered:
                        registered.append("T")
                elif op == "addBin":
                    g.add_writer(FB)
                    if "Bin" not in registered:
                        registered.append("Bin")
                elif op == "remA":
                    g.remove_writer(A)
                    if "A" in registered:
                        registered.remove("A")
                elif op == "remT":
                    g.remove_writer(FT)
                    if "T" in registered:
                        registered.remove("T")
                elif op == "emitC":
                    new = emit("C")
                    account(new)
                elif op == "emitM":
                    new = emit("M")
                    account(new)
                elif op == "flush":
                    g.flush()
                    for name in ("T", "Bin"):
                        if name in registered and objs[name]._file is not None:
                            flush_expect[name] += 1
                elif op == "teardown":
                    was_registered = list(registered)
                    g.teardown()
                    torn = True
                    registered.clear()
                    if g._writers:
                        return V("writers-left-after-teardown", lambda: f"{g._writers!r}; {log}")
                    for name in ("T", "Bin"):
                        # only writers registered at that moment are torn down
                        if name in was_registered and objs[name]._file is not None:
                            return V("file-writer-not-disconnected-by-teardown", lambda: f"{name}; {log}")
                    # the reference writer is registered again so that later lines can be observed
                    g.add_writer(ref)
                    registered.append("ref")
            except Exception as e:  # noqa: BLE001
                msg = f"{type(e).__name__}: {e}"
                return V("writer-operation-raised", lambda: f"{log}: {msg}")
        ctx = lambda: f"history {log}"  # noqa: E731
        # delivery: exactly the lines emitted while registered, once, in order, same content
        got = {"A": [c for c in A.chunks], "B": [c for c in B.chunks],
               "T": list(ts.parts), "Bin": list(bs.parts)}
        for name in ("A", "B", "T", "Bin"):
            want = expect[name]
            have = got[name]
            if len(have) != len(want):
                return V("wrong-number-of-lines-delivered",
                         lambda: f"writer {name}: {len(have)} line(s), expected {len(want)}; {ctx()}")
            for h, w in zip(have, want):
                if _as_text(h) != _as_text(w):
                    return V("delivered-line-differs",
                             lambda: f"writer {name}: {h!r} vs {w!r}; {ctx()}")
        if ts.bad or bs.bad:
            return V("wrong-type-written-to-stream",
                     lambda: f"text stream got {ts.bad!r}, binary stream got {bs.bad!r}; {ctx()}")
        for name, stream in (("T", ts), ("Bin", bs)):
            if stream.flushes != flush_expect[name]:
                return V("flush-not-forwarded",
                         lambda: f"stream {name}: {stream.flushes} flush(es), expected "
                                 f"{flush_expect[name]}; {ctx()}")
            if stream.closed:
                return V("caller-supplied-stream-closed", ctx)
        if [w for w in g._writers if w is not ref] != [objs[n] for n in registered if n != "ref"]:
            return V("writer-list-out-of-order-or-duplicated", lambda: f"{g._writers!r}; {ctx()}")
        reached("end")
        return None

    params = [f"t{i}" for i in range(n_emit)]
    src = f"def h({', '.join(params)}):\n    return core([{', '.join(params)}])\n"
    ns = {"core": core}
    exec(src, ns)
    h = ns["h"]
    h.__annotations__ = {p: FixedStr(1) for p in params}
    return h


def _make_real_file(seq_name):
    """Concrete: a path-based FileWriter on a real temporary file."""
    from gscrib import GCodeBuilder

    def h():
        d = tempfile.mkdtemp(prefix="vf_c14_")
        path = os.path.join(d, "sub", "out.gcode")
        try:
            g = GCodeBuilder(output=path, line_endings="\\n")
            ref = Rec()
            g.add_writer(ref)
            g.comment("héllo wörld")
            g.move(x=1.25, y=-3)
            if seq_name == "flush":
                g.flush()
            else:
                g.teardown()
            with open(path, "rb") as f:
                data = f.read()
            want = b"".join(ref.chunks)
            if data != want:
                return V("file-contents-differ-from-the-emitted-stream",
                         lambda: f"after {seq_name}: file {data!r}, stream {want!r}")
            if seq_name == "teardown":
                if g._writers:
                    return V("writers-left-after-teardown", lambda: f"{g._writers!r}")
            else:
                g.tool_off()
                g.teardown()
                with open(path, "rb") as f:
                    data = f.read()
                if data != b"".join(ref.chunks):
                    return V("file-contents-differ-from-the-emitted-stream",
                             lambda: f"after flush+teardown: file {data!r}")
            reached("end")
            return None
        finally:
            import shutil
            shutil.rmtree(d, ignore_errors=True)
    return h


def _make_real_history(seq):
    """Concrete: a path-based FileWriter on a real temporary file through a history of
    emit / remove+re-add / flush / teardown: the file always holds every line written to it."""
    from gscrib import GCodeBuilder
    from gscrib.writers import FileWriter

    def h():
        d = tempfile.mkdtemp(prefix="vf_c14_")
        path = os.path.join(d, "out.gcode")
        try:
            g = GCodeBuilder(line_endings="\\n")
            fw = FileWriter(path)
            g.add_writer(fw)
            ref = Rec()
            g.add_writer(ref)
            n = 0
            for op in seq:
                if op == "emit":
                    n += 1
                    g.comment(f"line {n} é")
                elif op == "readd":
                    g.remove_writer(fw)
                    g.add_writer(fw)
                elif op == "flush":
                    g.flush()
                    data = b""
                    if os.path.exists(path):      # the writer connects lazily on its first line
                        with open(path, "rb") as f:
                            data = f.read()
                    if data != b"".join(ref.chunks):
                        return V("file-contents-differ-from-the-emitted-stream",
                                 lambda: f"history {seq}: after flush the file holds {data!r}, "
                                         f"written {b''.join(ref.chunks)!r}")
            g.teardown()
            data = b""
            if os.path.exists(path):
                with open(path, "rb") as f:
                    data = f.read()
            if data != b"".join(ref.chunks):
                return V("file-contents-differ-from-the-emitted-stream",
                         lambda: f"history {seq}: after teardown the file holds {data!r}, "
                                 f"written {b''.join(ref.chunks)!r}")
            reached("end")
            return None
        finally:
            import shutil
            shutil.rmtree(d, ignore_errors=True)
    return h


def _make_fileobj_history(seq, binary):
    """Concrete: a FileWriter on a real, buffered file object that the CALLER opened (and owns),
    through a history of emit / remove_writer / add_writer / flush: after every flush() issued
    while the writer is registered the file on disk holds every line written to it so far; after
    teardown() and the caller's close() it holds all of them."""
    from gscrib import GCodeBuilder
    from gscrib.writers import FileWriter

    def h():
        d = tempfile.mkdtemp(prefix="vf_c14_")
        path = os.path.join(d, "out.gcode")
        fo = open(path, "wb") if binary else open(path, "w", encoding="utf-8", newline="")
        try:
            g = GCodeBuilder(line_endings="\\n")
            fw = FileWriter(fo)
            g.add_writer(fw)
            registered = True
            want = b""
            n = 0
            for k, op in enumerate(seq):
                if op == "emit":
                    n += 1
                    ref = Rec()
                    g.add_writer(ref)
                    g.comment(f"line {n} é")
                    g.remove_writer(ref)
                    if registered:
                        want += b"".join(ref.chunks)
                elif op == "remove":
                    g.remove_writer(fw)
                    registered = False
                elif op == "add":
                    g.add_writer(fw)
                    registered = True
                elif op == "flush":
                    g.flush()
                    if registered:
                        with open(path, "rb") as f:
                            data = f.read()
                        if data != want:
                            return V("file-contents-differ-from-the-emitted-stream",
                                     lambda: f"history {seq[:k + 1]}: after flush() the caller's file holds "
                                             f"{data!r}, written to it so far {want!r}")
            g.teardown()
            if fo.closed:
                return V("caller-supplied-stream-closed", lambda: f"history {seq}")
            fo.close()
            with open(path, "rb") as f:
                data = f.read()
            if data != want:
                return V("file-contents-differ-from-the-emitted-stream",
                         lambda: f"history {seq}: after teardown() and close() the file holds {data!r}, "
                                 f"written to it {want!r}")
            reached("end")
            return None
        finally:
            import shutil
            if not fo.closed:
                fo.close()
            shutil.rmtree(d, ignore_errors=True)
    return h


def _fileobj_sequences(maxlen):
    out = []
    for n in range(2, maxlen + 1):
        for seq in itertools.product(("emit", "remove", "add", "flush"), repeat=n):
            reg, ok = True, True
            for op in seq:
                if op == "remove":
                    ok, reg = ok and reg, False
                elif op == "add":
                    ok, reg = ok and not reg, True
            if ok and "emit" in seq and "flush" in seq:
                out.append(seq)
    return out


def cells(tier):
    out = []
    for binary in (False, True):
        for seq in _fileobj_sequences((5 if not binary else 3) if tier == "quick" else 6):
            out.append(Cell(f"real-fileobj-history|{'binary' if binary else 'text'}|" + ",".join(seq),
                            _make_fileobj_history(seq, binary), budget_s=60, must_reach=("end",),
                            entry="FileWriter (caller's file object, concrete)",
                            note="concrete, not solver-decided"))
    for n in (2, 3, 4):
        for seq in itertools.product(("emit", "readd", "flush"), repeat=n):
            if "emit" in seq and (tier != "quick" or n <= 3):
                out.append(Cell("real-file-history|" + ",".join(seq), _make_real_history(seq),
                                budget_s=60, must_reach=("end",),
                                entry="FileWriter (path based, concrete)",
                                note="concrete, not solver-decided"))
    maxlen = 3 if tier == "quick" else 4
    seqs = []
    for n in range(1, maxlen + 1):
        for s in itertools.product(OPS, repeat=n):
            if sum(1 for op in s if op == "emitC") > 2:
                continue
            if n == maxlen and n >= 3 and not (
                    any(op in ("teardown", "remA", "remT", "addA-again", "flush") for op in s)
                    and any(op.startswith("add") for op in s) and any(op.startswith("emit") for op in s)):
                continue
            seqs.append(s)
    for s in seqs:
        out.append(Cell("seq=" + ",".join(s), _make(s), budget_s=120 if tier == "quick" else 400,
                        must_reach=("end",), entry="GCodeCore writers"))
    for name in ("flush", "teardown"):
        out.append(Cell(f"real-file|{name}", _make_real_file(name), budget_s=60, must_reach=("end",),
                        entry="FileWriter (path based, concrete)", note="concrete, not solver-decided"))
    return out
