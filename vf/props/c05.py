"""C05 — a rejected command has no effect."""

from ..runner import Cell
from ..driver import Finite, assume
from .common import *  # noqa: F401,F403
from .steps import STEPS, TOOLS, COOLANTS, tool_label

PROPERTY_ID = "C05"
FUNCTIONS = [
    "every public state-tracked GCodeBuilder method (vf/props/steps.py)",
    "GCodeBuilder._prepare_move/_prepare_rapid/_track_move_params/_update_axes",
    "GCodeCore._update_axes/_process_move_params/_transform_move",
    "GState setters and validators, BoundManager.validate, Point.within_bounds",
    "DefaultFormatter.number (finiteness check) /parameters/command",
]
BOUNDS = ("One call from an arbitrary pre-state; on every path where the call raises, nothing was "
          "written and the snapshot of all public state (builder/state position, distance mode, "
          "feed, power, tool/coolant/halt status and modes, tool number, remembered parameters, "
          "target temperatures, units, plane, resolution) is unchanged. Cell grid: 99 call shapes "
          "x bounds table {none, all seven properties set} x machine state {idle, tool+coolant "
          "running, coolant only} x {G90, G91, G91 with a pause pending} (quick: the last two for the idle machine only) x how the pre-state is reached {installed directly, through public calls from a fresh builder (a true history)}. Solver over: arguments (reals, NaN, +-inf), integer arguments, pre-state "
          "feed/power/x-coordinate, and the feed-rate, tool-power and temperature ranges "
          "(any min<max; the three temperature ranges are shifted copies of one symbolic range so "
          "that they differ); axes box fixed to [0,10]^3, tool-number range to [1,9].")
ASSUMPTIONS = [
    "pre-state values are finite and non-negative where the API requires it; the current position may lie outside the axes box (bounds set after the move)",
    "axes box and tool-number range are concrete ([0,10]^3, [1,9]); the other five ranges symbolic",
]


def classify(e) -> str:
    """Which check rejected the call (from the exception type and its fixed message text)."""
    name, msg = exc_name(e), str(e)
    if name in ("ToolStateError", "CoolantStateError"):
        return "interlock"
    if "infinite or NaN" in msg:
        return "non-finite-number"
    if "out of bounds for '" in msg:
        return msg.split("out of bounds for '", 1)[1].split("'", 1)[0] + "-bound"
    if msg.startswith("Invalid"):
        return "invalid-value"
    if "ot a valid" in msg:
        return "enum"
    return f"other-{name}"


def _make(step, tool, coolant, bmode, relative=False, halt=None, history=False):
    def core(f, n, px, feed, power, flo, fhi, plo, phi, tlo, thi):
        assume(feed >= 0)
        assume(power >= 0)
        for k in n:
            assume(k >= -2)
            assume(k <= 120)
        bounds = {}
        if bmode == "all":
            assume(flo < fhi)
            assume(plo < phi)
            assume(tlo < thi)
            # px is NOT assumed to lie inside the axes box: set_bounds() after a move can leave the
            # current position outside it
            bounds = {"feed-rate": (flo, fhi), "tool-power": (plo, phi),
                      "bed-temperature": (tlo, thi), "hotend-temperature": (tlo + 1000, thi + 1000),
                      "chamber-temperature": (tlo - 1000, thi - 1000), "tool-number": (1, 9),
                      "axes": ((0.0, 0.0, 0.0), (10.0, 10.0, 10.0))}
        pre = mkpre(pos=(px, 2.0, 3.0), tool=tool, coolant=coolant, feed=feed, relative=relative, halt=halt,
                    power=power if tool else 0, bounds=bounds)
        g, rec = prepare(pre, history)
        before = snapshot(g)
        e = attempt(step.call, g, f, n)
        if e is None:
            reached("accepted")
            return None
        reached("rejected")
        name = exc_name(e)
        why = classify(e)
        if rec.chunks:
            return V(f"{step.name}|rejected-by:{why}|but-emitted",
                     lambda: f"{name}: {e}; yet wrote {rec.text()!r} (f={f!r}, n={n!r})")
        after = snapshot(g)
        changed = diff_snapshots(before, after)
        if changed:
            return V(f"{step.name}|rejected-by:{why}|state-changed",
                     lambda: (f"{name}: {e}; changed " + ", ".join(
                         f"{k}: {before[k]!r} -> {after[k]!r}" for k in changed)
                         + f" (f={f!r}, n={n!r}, bounds={bounds!r})"))
        return None

    sig = (step.nf, step.ni)
    if sig == (0, 0):
        def h(px: Finite, feed: Finite, power: Finite, flo: Finite, fhi: Finite, plo: Finite,
              phi: Finite, tlo: Finite, thi: Finite):
            return core([], [], px, feed, power, flo, fhi, plo, phi, tlo, thi)
    elif sig == (1, 0):
        def h(a: float, px: Finite, feed: Finite, power: Finite, flo: Finite, fhi: Finite,
              plo: Finite, phi: Finite, tlo: Finite, thi: Finite):
            return core([a], [], px, feed, power, flo, fhi, plo, phi, tlo, thi)
    elif sig == (2, 0):
        def h(a: float, b: float, px: Finite, feed: Finite, power: Finite, flo: Finite,
              fhi: Finite, plo: Finite, phi: Finite, tlo: Finite, thi: Finite):
            return core([a, b], [], px, feed, power, flo, fhi, plo, phi, tlo, thi)
    elif sig == (3, 0):
        def h(a: float, b: float, c: float, px: Finite, feed: Finite, power: Finite, flo: Finite,
              fhi: Finite, plo: Finite, phi: Finite, tlo: Finite, thi: Finite):
            return core([a, b, c], [], px, feed, power, flo, fhi, plo, phi, tlo, thi)
    elif sig == (0, 1):
        def h(k: int, px: Finite, feed: Finite, power: Finite, flo: Finite, fhi: Finite,
              plo: Finite, phi: Finite, tlo: Finite, thi: Finite):
            return core([], [k], px, feed, power, flo, fhi, plo, phi, tlo, thi)
    elif sig == (1, 1):
        def h(a: float, k: int, px: Finite, feed: Finite, power: Finite, flo: Finite, fhi: Finite,
              plo: Finite, phi: Finite, tlo: Finite, thi: Finite):
            return core([a], [k], px, feed, power, flo, fhi, plo, phi, tlo, thi)
    else:
        raise ValueError(step)
    return h


def cells(tier):
    out = []
    # (None, "flood"): only the second interlock (coolant) rejects; a seeded change of round 5 (C05-9)
    # moved an assignment between the two interlock tests and needs exactly this state
    states = [(None, None), (("spin", "cw"), "flood"), (None, "flood")]
    if tier != "quick":
        states = [(t, c) for t in TOOLS for c in COOLANTS]
    for step in STEPS:
        for tool, coolant in states:
            for bmode in ("none", "all"):
                name = f"{step.name}|tool={tool_label(tool)}|coolant={coolant or 'off'}|bounds={bmode}"
                out.append(Cell(name, _make(step, tool, coolant, bmode),
                                budget_s=120 if tier == "quick" else 400,
                                entry=f"GCodeBuilder.{step.name.split(':')[0].split('(')[0]}"))
                if (tool, coolant) != states[0] and tier == "quick":
                    continue
                out.append(Cell(name + "|G91", _make(step, tool, coolant, bmode, relative=True),
                                budget_s=120 if tier == "quick" else 400,
                                entry=f"GCodeBuilder.{step.name.split(':')[0].split('(')[0]}"))
                out.append(Cell(name + "|via-public-history",
                                _make(step, tool, coolant, bmode, history=True),
                                budget_s=120 if tier == "quick" else 400,
                                entry=f"GCodeBuilder.{step.name.split(':')[0].split('(')[0]}"))
                out.append(Cell(name + "|G91|halt-pending",
                                _make(step, tool, coolant, bmode, relative=True, halt="pause"),
                                budget_s=120 if tier == "quick" else 400,
                                entry=f"GCodeBuilder.{step.name.split(':')[0].split('(')[0]}"))
    return out
