"""C16 — direct-write statements are delivered synchronously and errors surface
(single-threaded co-simulation: the reader thread's callbacks are delivered at the two points
where write() can be overtaken or blocked)."""

import importlib
import queue

from ..runner import Cell
from ..driver import assume
from ..mode import MODE, V, reached

PROPERTY_ID = "C16"
FUNCTIONS = [
    "PrintrunWriter.write", "PrintrunWriter._send_statement", "PrintrunWriter._wait_for_acknowledgment",
    "PrintrunWriter._abort_on_device_error", "PrintrunWriter._on_device_message",
    "PrintrunWriter._on_printrun_error", "PrintrunWriter.is_connected/get_parameter",
    "PrintrunWriter.disconnect/_wait_for_pending_operations/has_pending_operations",
    "PrintrunWriter.connect/_create_device/_connect_device/_wait_for_connection/_start_print_thread",
]
BOUNDS = ("NOT real thread schedules. The printcore object is a recording stub; the reader thread is "
          "replaced by a scripted source of device lines whose callbacks run at one of two points "
          "per line: inside device.send() (the reply overtakes write()) or when write() blocks in "
          "Event.wait() (the reply is late). Cell grid: 2-3 statements x reply script per statement "
          "(ok; status report then ok; report carried by the ok line; error; alarm after a report; "
          "a printrun error callback). Solver over: the delivery point of every line (early / "
          "when blocked / only after any finite timeout; order of lines preserved); an alarm may also "
          "arrive between two statements. Checked after every write(): the device received "
          "exactly the statements written so far, in order, unmodified; write() returned only "
          "after the line acknowledging THAT statement had been delivered (never released by a "
          "status line, never blocked although the acknowledgement had arrived); an error/alarm/!! "
          "reply or a printrun error surfaces as DeviceError from write(); a reading reported "
          "before or on the acknowledging line is available when write() returns; the next write "
          "works normally after an error. disconnect(wait): with the polling loop's sleep as the point "
          "where the stubbed sender/reader make progress (0, 1 or 3 queued statements, busy or idle, "
          "optional error line at the 1st/2nd poll), the connection is closed only after the queue "
          "is empty and the last statement acknowledged, a device error during the wait is raised "
          "and the connection closed all the same, wait=False does not poll. connect(): the "
          "stand-in plays printcore's start-up handshake (M110 N-1, its ok, the empty job ends, "
          "M110 N-1 again without waiting); the delivery point of the ok still owed {before connect "
          "returns, overtaking the first write, when the first write blocks} is a solver variable, "
          "followed by 1-2 statements with every reply script. NOT decided: pre-emption at other "
          "points, latency, the real printcore threads.")
ASSUMPTIONS = [
    "printcore's handshake is played by the stand-in as read from printcore.py (startprint sends "
    "M110 N-1; the print thread waits for its ok, finds the job empty, stops and sends M110 N-1 again "
    "without waiting; sendcb before every line; recvcb before `clear` is set)",
    "the reader thread is modelled by callbacks at two yield points (inside send(), inside "
    "Event.wait()); pre-emption between other statements of write() is not explored",
    "threading.Event is replaced by a stub whose wait() first lets the scripted reader run and "
    "raises if the flag is still clear (a real run would block for ever)",
]

pw_mod = importlib.import_module("gscrib.writers.printrun_writer")
import logging as _logging
_logging.getLogger("gscrib").setLevel(_logging.CRITICAL + 1)  # error callbacks log by design


class WouldBlock(Exception):
    pass


class FakeEvent:
    def __init__(self):
        self.flag = False
        self.on_wait = lambda timeout=None: None
        self.waits = 0

    def set(self):
        self.flag = True

    def clear(self):
        self.flag = False

    def is_set(self):
        return self.flag

    def wait(self, timeout=None):
        self.waits += 1
        if self.flag:
            return True           # already set: a real wait() returns at once, the reader does not run
        self.on_wait(timeout)     # write() blocks: the reader thread gets to run
        if not self.flag:
            if timeout is not None:
                return False      # a finite wait gives up before a very late reply
            raise WouldBlock()
        return True


class FakeCore:
    """Stands in for printcore: records what is sent; the scripted reader runs inside send()."""
    online = True
    printing = False
    clear = True
    printer = object()

    def __init__(self):
        self.sent = []
        self.priqueue = queue.Queue()
        self.on_send = lambda: None

    def send(self, command, wait=0):
        self.sent.append(command)
        self.on_send()

    # --- connect() and the start-up handshake, as printcore does them (read from printcore.py:
    # startprint() sends "M110 N-1" and the print thread waits for its ok; with an empty job the
    # thread then stops printing and sends "M110 N-1" AGAIN without waiting for that ok; every
    # line written goes through sendcb first; recvcb runs before `clear` is set) ---
    sendcb = recvcb = onlinecb = errorcb = None
    stage = 0

    def connect(self, port=None, baud=None):
        self.online = True
        if self.onlinecb:
            self.onlinecb()

    def _emit(self, command):
        self.handshake.append(command)
        if self.sendcb:
            self.sendcb(command, None)

    def startprint(self, gcode, startindex=0):
        self.handshake = []
        self.printing = True
        self.clear = False
        self._emit("M110 N-1")
        self.stage = 1
        return True

    def print_thread_step(self):
        """One scheduling slot for the reader + print threads (called where the writer sleeps)."""
        if self.stage == 1:
            self.recvcb("ok\n")          # the ok of the first M110 ...
            self.clear = True            # ... releases the print thread,
            self.printing = False        # which finds the job empty, stops printing
            self._emit("M110 N-1")       # and resets the line numbers again
            self.stage = 2               # the ok of THAT line is still owed by the device

    def disconnect(self):
        self.disconnected_with = (self.priqueue.empty(), self.clear, self.printing)

    def cancelprint(self):
        self.cancelled = True


SCRIPTS = {
    # name: list of (line, kind) ; kind: 'ack' acknowledges, 'err' rejects, 'info' neither,
    #                                     'perr' = printrun's own error callback
    "ok": [("ok", "ack")],
    "report-ok": [("X:1.50 Y:2.50 Z:3.50 E:0.00 Count X:120 Y:200 Z:1400", "info"), ("ok", "ack")],
    "ok-with-report": [("ok T:201.5 /210.0 B:59.5 /60.0", "ack")],
    "busy-ok": [("echo:busy: processing", "info"), ("echo:busy: processing", "info"), ("ok", "ack")],
    "error": [("error:20 Unsupported command", "err")],
    "report-alarm": [("<Alarm|MPos:0.000,0.000,0.000|FS:0,0>", "info"), ("ALARM:1", "err")],
    "bang": [("!! Printer halted. kill() called!", "err")],
    "printrun-error": [("Can't write to printer (disconnected?)", "perr")],
    # an alarm that arrives after the statement was acknowledged, while no write() is waiting:
    # the NEXT write must raise it
    "ok-then-alarm": [("ok", "ack"), ("ALARM:2", "between")],
}
EXPECT_READING = {"report-ok": ("X", 1.5), "ok-with-report": ("T", 201.5)}


def _make(script_names, handshake=False):
    n_lines = sum(len(SCRIPTS[s]) for s in script_names)

    def core(early, late, hs_when=0):
        w = pw_mod.PrintrunWriter("serial", "host", "port", 250000)
        core_dev = FakeCore()
        ev = FakeEvent()
        w._ack_event = ev
        if not handshake:
            w._device = core_dev
        statements = [f"G1 X{k + 1} F600" for k in range(len(script_names))]
        pending = []          # lines of the current statement not yet delivered: (line, kind, early?)
        delivered_kinds = []

        def deliver(now_waiting, timeout=None):
            # the reader delivers lines in order; a line scheduled for the blocking point holds
            # back everything after it until write() blocks; a 'very late' line arrives only
            # after any finite timeout (an unbounded wait still gets it)
            while pending:
                line, kind, is_early, very_late = pending[0]
                if kind == "between":
                    break                      # delivered after write() has returned
                if not now_waiting and not is_early:
                    break
                if now_waiting and very_late and timeout is not None:
                    break
                pending.pop(0)
                if kind == "perr":
                    w._on_printrun_error(line)
                else:
                    w._on_device_message(line + "\n")
                delivered_kinds.append(kind)

        core_dev.on_send = lambda: deliver(False)
        ev.on_wait = lambda timeout=None: deliver(True, timeout)
        stale = []
        if handshake:
            # connect() for real, against the printcore stand-in. The ok owed for the second
            # "M110 N-1" arrives: 0 = in the same scheduling slot (before connect() can return),
            # 1 = right after the first statement is handed to the sender (overtakes write()),
            # 2 = when the first write() blocks; in every case BEFORE the first statement's own ack.
            assume(hs_when >= 0)
            assume(hs_when <= 2)

            class FakeTime:
                @staticmethod
                def sleep(dt):
                    core_dev.print_thread_step()
                    if core_dev.stage == 2 and hs_when == 0:
                        core_dev.stage = 3
                        core_dev.recvcb("ok\n")

                def __getattr__(self, name):
                    import time
                    return getattr(time, name)

            old_time, old_core = pw_mod.time, pw_mod.printcore
            pw_mod.time, pw_mod.printcore = FakeTime(), (lambda: core_dev)
            # a wait inside connect() lets the reader run: the owed ok is delivered then
            def hs_wait(timeout=None):
                if core_dev.stage == 2:
                    core_dev.stage = 3
                    core_dev.recvcb("ok\n")
            ev.on_wait = hs_wait
            try:
                w.connect()
            except Exception as e:  # noqa: BLE001
                msg = f"{type(e).__name__}: {e}"
                return V("connect-raised", lambda: f"{msg} (handshake ok delivery={hs_when!r})")
            finally:
                pw_mod.time, pw_mod.printcore = old_time, old_core
            ev.on_wait = lambda timeout=None: deliver(True, timeout)
            if core_dev.handshake != ["M110 N-1", "M110 N-1"] or core_dev.printing:
                return V("handshake-not-completed", lambda: f"{core_dev.handshake!r} stage={core_dev.stage}")
            if core_dev.stage == 2:
                stale.append(("ok", "stale", hs_when == 1, False))
            reached("connected")
        bit = 0
        owed_error = False        # an error line arrived while no write() was waiting
        for k, (stmt, sname) in enumerate(zip(statements, script_names)):
            script = [x for x in SCRIPTS[sname] if x[1] != "between"]
            after = [x for x in SCRIPTS[sname] if x[1] == "between"]
            pending[:] = [(line, kind, early[bit + i], late[bit + i]) for i, (line, kind) in enumerate(script)]
            if k == 0 and stale:
                pending[:0] = stale       # the handshake's last ok is still on its way
            bit += len(SCRIPTS[sname])
            del delivered_kinds[:]
            raised = None
            try:
                w.write((stmt + "\n").encode("utf-8"))
            except Exception as e:  # noqa: BLE001
                raised = e
            ctx = lambda: (f"statement {k} {stmt!r} with replies {script!r}, early={early!r} very_late={late!r}: "  # noqa: E731
                           f"sent={core_dev.sent!r} delivered={delivered_kinds!r} raised={raised!r}")
            if isinstance(raised, WouldBlock) or (raised is not None and isinstance(
                    getattr(raised, "__cause__", None), WouldBlock)):
                return V("write-blocks-although-the-acknowledgement-arrived", ctx)
            if core_dev.sent != statements[:k + 1]:
                return V("device-did-not-receive-the-statements-once-in-order", ctx)
            final_kind = script[-1][1]
            if not delivered_kinds or delivered_kinds[-1] != final_kind or pending:
                return V("write-returned-before-its-acknowledgement", ctx)
            if final_kind in ("err", "perr") or owed_error:
                owed_error = False
                if raised is None or type(raised).__name__ != "DeviceError":
                    return V("device-error-not-raised-by-write", ctx)
            elif raised is not None:
                name = type(raised).__name__
                return V("write-raised-on-an-acknowledged-statement", lambda: f"{name}; {ctx()}")
            for line, _kind in after:       # unsolicited lines between two statements
                w._on_device_message(line + "\n")
                if line.lower().startswith(("error", "alarm", "!!")):
                    owed_error = True
            if sname in EXPECT_READING:
                key, val = EXPECT_READING[sname]
                got = w.get_parameter(key)
                if got != val:
                    return V("reading-not-available-when-write-returns",
                             lambda: f"get_parameter({key!r}) = {got!r}, expected {val!r}; {ctx()}")
        reached("done")
        return None

    params = [f"e{i}" for i in range(n_lines)] + [f"l{i}" for i in range(n_lines)]
    extra = ["hs_when"] if handshake else []
    src = (f"def h({', '.join(params + extra)}):\n"
           f"    return core([{', '.join(params[:n_lines])}], [{', '.join(params[n_lines:])}]"
           f"{', hs_when' if handshake else ''})\n")
    ns = {"core": core}
    exec(src, ns)
    h = ns["h"]
    h.__annotations__ = {p: bool for p in params}
    if handshake:
        h.__annotations__["hs_when"] = int
    return h


def _make_disconnect(nq, error_step):
    """disconnect(wait): with wait=True the connection is closed only after everything queued has
    been sent and acknowledged (the polling loop's sleep is where the sender/reader make progress);
    a device error during the wait is raised and the connection is closed all the same."""
    def h(wait: bool, busy: bool):
        w = pw_mod.PrintrunWriter("serial", "host", "port", 250000)
        core_dev = FakeCore()
        w._device = core_dev
        for i in range(nq):
            core_dev.priqueue.put(f"M400 ; {i}")
        core_dev.clear = not busy and nq == 0
        steps = []
        still_pending = []

        class FakeTime:
            @staticmethod
            def sleep(dt):
                steps.append(dt)
                if len(steps) > 50:
                    raise WouldBlock()
                if not core_dev.priqueue.empty() and core_dev.clear:
                    core_dev.sent.append(core_dev.priqueue.get_nowait())
                    core_dev.clear = False
                elif not core_dev.clear:
                    core_dev.clear = True            # the acknowledgement arrived
                if error_step and len(steps) == error_step:
                    w._on_device_message("error: thermal runaway")
                    # is the loop going to look again? (an error on the very last poll is not
                    # covered by the property's wording and is not demanded here)
                    still_pending.append(not core_dev.priqueue.empty() or not core_dev.clear)

            def __getattr__(self, name):
                import time
                return getattr(time, name)

        old_time = pw_mod.time
        pw_mod.time = FakeTime()
        raised = None
        try:
            w.disconnect(wait)
        except Exception as e:  # noqa: BLE001
            raised = e
        finally:
            pw_mod.time = old_time
        ctx = lambda: (f"queued={nq} busy={busy} wait={wait} error_step={error_step}: "  # noqa: E731
                       f"polls={len(steps)} closed_with={getattr(core_dev, 'disconnected_with', None)!r} "
                       f"raised={raised!r}")
        closed = getattr(core_dev, "disconnected_with", None)
        if closed is None or w._device is not None or w.is_connected:
            return V("disconnect-left-the-connection-open", ctx)
        errored = bool(error_step) and wait and len(steps) >= error_step and still_pending == [True]
        if errored:
            if raised is None or type(raised).__name__ != "DeviceError":
                return V("device-error-during-disconnect-not-raised", ctx)
        elif raised is not None:
            return V("disconnect-raised", ctx)
        if wait and not errored and closed[:2] != (True, True):
            return V("disconnect-closed-before-everything-was-sent-and-acknowledged", ctx)
        if not wait and steps:
            return V("disconnect-without-wait-polled", ctx)
        reached("done")
        return None
    return h


def cells(tier):
    import itertools
    names = list(SCRIPTS)
    out = []
    combos = [(a, b) for a in names for b in names]
    if tier != "quick":
        combos += [(a, b, c) for a in names for b in names for c in names]
    for combo in combos:
        out.append(Cell("statements=" + ",".join(combo), _make(combo), budget_s=120,
                        must_reach=("done",), entry="PrintrunWriter.write"))
    for combo in [(a,) for a in names] + [("ok", b) for b in names] + [("report-ok", "ok-with-report")]:
        out.append(Cell("connect+statements=" + ",".join(combo), _make(combo, handshake=True), budget_s=120,
                        must_reach=("connected", "done"),
                        entry="PrintrunWriter.connect/_start_print_thread + write"))
    for nq in (0, 1, 3):
        for error_step in (0, 1, 2):
            out.append(Cell(f"disconnect|queued={nq}|error-at-poll={error_step}",
                            _make_disconnect(nq, error_step), budget_s=60, must_reach=("done",),
                            entry="PrintrunWriter.disconnect/_wait_for_pending_operations"))
    return out
