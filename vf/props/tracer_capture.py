"""Capturing the geometry that PathTracer hands to its sampler (used by C10, C11).

The sampling itself (numpy trig, scipy splines) cannot be symbolic. What is
plain Python is the geometry computed *before* sampling: absolute start,
target, centre and control points. It is captured

* for thread/spiral/circle: by replacing the bound methods ``helix``/``arc`` of
  the tracer instance with recorders (these shapes only forward arguments);
* for arc/helix/arc_radius: at the first numpy calls of the method -- the
  module-level ``np`` of gscrib.geometry.tracer is replaced by a recorder whose
  ``hypot`` records its arguments (the XY offsets start-centre and
  target-centre) and aborts the call after the last one needed;
* for spline: by replacing ``CubicSpline`` in the tracer module with a recorder
  of the control-point coordinate lists.
"""

import importlib
from contextlib import contextmanager

tracer_mod = importlib.import_module("gscrib.geometry.tracer")


class Captured(Exception):
    """Raised by a recorder once everything needed has been recorded."""


class HypotRecorder:
    def __init__(self, stop_after):
        self.calls = []
        self.stop_after = stop_after

    def hypot(self, a, b):
        self.calls.append((a, b))
        if len(self.calls) >= self.stop_after:
            raise Captured()
        return 1.0

    def __getattr__(self, name):
        import numpy
        return getattr(numpy, name)


class SplineRecorder:
    def __init__(self):
        self.calls = []

    def __call__(self, thetas, values):
        self.calls.append((list(thetas), list(values)))
        if len(self.calls) >= 3:
            raise Captured()
        return lambda th: th


@contextmanager
def tracer_np(recorder):
    old = tracer_mod.np
    tracer_mod.np = recorder
    try:
        yield recorder
    finally:
        tracer_mod.np = old


@contextmanager
def tracer_spline(recorder):
    old = tracer_mod.CubicSpline
    tracer_mod.CubicSpline = recorder
    try:
        yield recorder
    finally:
        tracer_mod.CubicSpline = old


def capture_forward(g, method, shape_call):
    """Replace g.trace.<method> by a recorder, run shape_call(g), return recorded calls."""
    calls = []

    def recorder(*a, **kw):
        calls.append((a, kw))

    setattr(g.trace, method, recorder)
    try:
        shape_call(g)
    finally:
        delattr(g.trace, method)
    return calls


def capture_arc_like(g, shape_call, n_hypot=2):
    """Run an arc()/helix() call until its second hypot: returns [(do.x, do.y), (dt.x, dt.y)]."""
    rec = HypotRecorder(n_hypot)
    with tracer_np(rec):
        try:
            shape_call(g)
        except Captured:
            pass
    return rec.calls


class ArcRecorder:
    """numpy for a full pass through arc(): hypot #1/#2 return the same dummy radius (so the
    equidistance check passes), arctan2 returns fixed dummy angles, hypot #3 (the path length
    from arc length and Z travel) returns a recognisable value."""
    LENGTH = 7.25

    def __init__(self):
        self.hypots, self.atans = [], []

    def hypot(self, a, b):
        self.hypots.append((a, b))
        return self.LENGTH if len(self.hypots) >= 3 else 2.0

    def arctan2(self, y, x):
        self.atans.append((y, x))
        return 0.25 if len(self.atans) == 1 else 1.0   # end angle, then start angle

    def isclose(self, a, b, **kw):
        return a == b

    def __getattr__(self, name):
        import numpy
        return getattr(numpy, name)


def capture_arc_full(g, shape_call):
    """Run arc() completely, with parametric() replaced by a recorder.
    Returns (recorder, [(function, length, kwargs)])."""
    rec = ArcRecorder()
    calls = []
    g.trace.parametric = lambda fn, length, **kw: calls.append((fn, length, kw))
    try:
        with tracer_np(rec):
            shape_call(g)
    finally:
        del g.trace.parametric
    return rec, calls


def capture_spline(g, shape_call):
    rec = SplineRecorder()
    with tracer_spline(rec):
        try:
            shape_call(g)
        except Captured:
            pass
        except ValueError:
            return [("rejected", [])]
    return rec.calls
