"""C02 — interlocks: no unsafe tool/coolant/halt sequence is ever emitted."""

from ..runner import Cell
from ..driver import Finite, assume
from .common import *  # noqa: F401,F403
from .steps import STEPS, TOOLS, COOLANTS, tool_label

PROPERTY_ID = "C02"
FUNCTIONS = [
    "every public state-tracked GCodeBuilder method (see vf/props/steps.py: 99 call shapes)",
    "GState._set_spin_mode/_set_power_mode/_set_coolant_mode/_set_tool_number/_set_halt_mode",
    "GState._ensure_tool_is_inactive/_ensure_coolant_is_inactive",
    "GState._validate_tool_number/_validate_feed_rate/_validate_tool_power",
    "GCodeBuilder.write, GCodeCore.write, GCodeBuilder._get_statement, DefaultFormatter.*",
]
BOUNDS = ("Inductive step for invariant I2 (state.is_tool_active / is_coolant_active equal the "
          "reference machine's tool/coolant status). Cell grid: 99 call shapes (method x enum value "
          "x which keyword parameters) x tool state {off, spin cw/ccw, power constant/dynamic} x "
          "coolant {off, mist, flood}. Solver over: numeric arguments (all reals, NaN, +-inf), "
          "integer arguments, current tool number (so 'same tool again' is included), tool-swap "
          "mode flag, tool power, and whether a halt is pending. Plus TRUE "
          "histories from a freshly constructed builder (no private pre-state): every pair of 25 calls "
          "and every triple over a 10-call tool/coolant/halt alphabet, checked after every call.")
ASSUMPTIONS = [
    "no bounds configured (bounds are C03/C06), no hooks, identity transform, position (1,2,3)",
    "argument-validation rules taken as documented: negative or non-finite numbers, OFF passed "
    "to an on-call, tool number < 1, fan speed outside 0..255, fan number < 0, resolution <= 0",
]

STATE_ERRORS = ("ToolStateError", "CoolantStateError")


def _make(step, tool, coolant):
    # signature is generated to carry exactly the symbolic arguments the step needs
    def core(f, n, power, cur_tool, swap_manual, halted):
        assume(power >= 0)
        assume(cur_tool >= 0)
        assume(cur_tool <= 120)
        for k in n:
            assume(k >= -2)
            assume(k <= 120)
        swap = "off"
        if cur_tool >= 1:
            swap = "manual" if swap_manual else "automatic"
        halt = "pause" if (halted and tool is None and coolant is None) else None
        pre = mkpre(pos=(1.0, 2.0, 3.0), tool=tool, coolant=coolant,
                    power=power if tool else 0, tool_number=cur_tool if cur_tool >= 1 else 0,
                    tool_swap=swap, halt=halt)
        g, rec = prepare(pre)
        m = machine_for(pre, rec)
        e = attempt(step.call, g, f, n)
        try:
            m.run_text(rec.text())
        except Malformed as mf:
            return V(f"{step.name}-malformed-output", str(mf))
        # (a) nothing unsafe in what was emitted
        for kind, info in m.events:
            if kind == "tool_start" and info[1]:
                return V(f"{step.name}-tool-start-while-running",
                         lambda: f"{info[0]} emitted with a tool already running; output={rec.text()!r}")
            if kind == "coolant_start" and info[1]:
                return V(f"{step.name}-coolant-start-while-on",
                         lambda: f"{info[0]} emitted with coolant already on; output={rec.text()!r}")
            if kind == "tool_change" and (info[0] or info[1]):
                return V(f"{step.name}-tool-change-while-active",
                         lambda: f"M06 emitted with tool_on={info[0]} coolant_on={info[1]}; output={rec.text()!r}")
            if kind == "halt" and (info[1] or info[2]):
                return V(f"{step.name}-halt-while-active",
                         lambda: f"{info[0]} emitted with tool_on={info[1]} coolant_on={info[2]}; "
                         f"output={rec.text()!r}")
        # (b) rejected exactly when documented
        tool_on, coolant_on = tool is not None, coolant is not None
        if step.interlock == "tool-start":
            locked = ["ToolStateError"] if tool_on else []
        elif step.interlock == "coolant-start":
            locked = ["CoolantStateError"] if coolant_on else []
        elif step.interlock == "needs-idle":
            locked = (["ToolStateError"] if tool_on else []) + (["CoolantStateError"] if coolant_on else [])
        else:
            locked = []
        bad = step.argbad(f, n)
        if e is None:
            if locked:
                return V(f"{step.name}-interlock-not-enforced",
                         lambda: f"call succeeded with tool_on={tool_on} coolant_on={coolant_on}; "
                         f"output={rec.text()!r}")
            reached("accepted")
        else:
            name = exc_name(e)
            if name in STATE_ERRORS:
                if name not in locked:
                    return V(f"{step.name}-spurious-{name}",
                             lambda: f"{name}: {e} with tool_on={tool_on} coolant_on={coolant_on}")
                reached("interlock")
            elif name in ("ValueError",):
                if not bad:
                    return V(f"{step.name}-spurious-ValueError",
                             lambda: f"ValueError: {e} with valid arguments f={f!r} n={n!r}")
                reached("argument")
            else:
                return V(f"{step.name}-unexpected-{name}", lambda: f"{name}: {e}")
        # (c) I2 afterwards
        if bool(g.state.is_tool_active) != m.tool_on:
            return V(f"{step.name}-tool-flag-diverged",
                     lambda: f"state.is_tool_active={g.state.is_tool_active} machine tool_on={m.tool_on} "
                     f"(raised {exc_name(e)}); output={rec.text()!r}")
        if bool(g.state.is_coolant_active) != m.coolant_on:
            return V(f"{step.name}-coolant-flag-diverged",
                     lambda: f"state.is_coolant_active={g.state.is_coolant_active} machine={m.coolant_on} "
                     f"(raised {exc_name(e)}); output={rec.text()!r}")
        return None

    if (step.nf, step.ni) == (0, 0):
        def h(power: Finite, cur_tool: int, swap_manual: bool, halted: bool):
            return core([], [], power, cur_tool, swap_manual, halted)
    elif (step.nf, step.ni) == (1, 0):
        def h(a: float, power: Finite, cur_tool: int, swap_manual: bool, halted: bool):
            return core([a], [], power, cur_tool, swap_manual, halted)
    elif (step.nf, step.ni) == (2, 0):
        def h(a: float, b: float, power: Finite, cur_tool: int, swap_manual: bool, halted: bool):
            return core([a, b], [], power, cur_tool, swap_manual, halted)
    elif (step.nf, step.ni) == (3, 0):
        def h(a: float, b: float, c: float, power: Finite, cur_tool: int, swap_manual: bool,
              halted: bool):
            return core([a, b, c], [], power, cur_tool, swap_manual, halted)
    elif (step.nf, step.ni) == (0, 1):
        def h(k: int, power: Finite, cur_tool: int, swap_manual: bool, halted: bool):
            return core([], [k], power, cur_tool, swap_manual, halted)
    elif (step.nf, step.ni) == (1, 1):
        def h(a: float, k: int, power: Finite, cur_tool: int, swap_manual: bool, halted: bool):
            return core([a], [k], power, cur_tool, swap_manual, halted)
    else:
        raise ValueError(step)
    return h


def _make_history(seq):
    """A TRUE history from a freshly constructed builder: nothing unsafe is ever emitted, a call is
    refused with a state error only when the program so far really has the tool / coolant on, and
    the flags follow the program."""
    from gscrib import GCodeBuilder
    from ..fixture import Rec
    from ..refmachine import RefMachine
    from .c07 import HIST

    def core(vals):
        from ..shims import TOKENS
        if MODE.symbolic:
            TOKENS.clear()
        g = GCodeBuilder(line_endings="\\n")
        rec = Rec()
        g.add_writer(rec)
        m = RefMachine(tokens())
        done = 0
        for k, (name, a) in enumerate(zip(seq, vals)):
            tool_before, coolant_before = m.tool_on, m.coolant_on
            e = attempt(HIST[name], g, a)
            try:
                lines = split_lines(rec.text())
                first_event = len(m.events)
                for line in lines[done:]:
                    m.run_line(line)
                done = len(lines)
            except Malformed as mf:
                return V("history-malformed-output", str(mf))
            ctx = lambda: f"after {seq[:k + 1]} with values {vals[:k + 1]!r}: output={rec.text()!r}"  # noqa: E731
            for kind, info in m.events[first_event:]:
                if (kind == "tool_start" and info[1]) or (kind == "coolant_start" and info[1]) or \
                        (kind == "tool_change" and (info[0] or info[1])) or \
                        (kind == "halt" and (info[1] or info[2])):
                    return V("history-unsafe-code-emitted", lambda: f"{kind} {info!r}; {ctx()}")
            if e is not None:
                name_e = exc_name(e)
                if name_e == "ToolStateError" and not tool_before:
                    return V("history-spurious-ToolStateError", ctx)
                if name_e == "CoolantStateError" and not coolant_before:
                    return V("history-spurious-CoolantStateError", ctx)
                if name_e not in ("ToolStateError", "CoolantStateError", "ValueError"):
                    return V("history-unexpected-exception", lambda: f"{name_e}: {e}; {ctx()}")
            if bool(g.state.is_tool_active) != m.tool_on or bool(g.state.is_coolant_active) != m.coolant_on:
                return V("history-flags-diverged",
                         lambda: f"state tool={g.state.is_tool_active} coolant={g.state.is_coolant_active}, "
                                 f"program tool={m.tool_on} coolant={m.coolant_on}; {ctx()}")
        reached("accepted")
        return None

    if len(seq) == 2:
        def h(a: Finite, b: Finite):
            return core([a, b])
    else:
        def h(a: Finite, b: Finite, c: Finite):
            return core([a, b, c])
    return h


def cells(tier):
    out = []
    import itertools
    from .c07 import HIST
    core3 = ["tool_on", "tool_off", "power_on", "power_off", "coolant_on", "coolant_off", "tool_change",
             "halt(bed,S)", "emergency", "move(z,S)"]
    hseqs = list(itertools.product(list(HIST), repeat=2)) + list(itertools.product(core3, repeat=3))
    for seq in hseqs:
        out.append(Cell("history|" + ",".join(seq), _make_history(seq),
                        budget_s=90 if tier == "quick" else 300, must_reach=("accepted",),
                        entry="GCodeBuilder (history from a fresh builder)"))
    for step in STEPS:
        for tool in TOOLS:
            for coolant in COOLANTS:
                if tier == "quick" and step.group in ("motion", "modal"):
                    # quick: non-interlocked calls from the two extreme machine states only
                    if (tool, coolant) not in ((None, None), (("power", "dynamic"), "flood")):
                        continue
                name = f"{step.name}|tool={tool_label(tool)}|coolant={coolant or 'off'}"
                out.append(Cell(name, _make(step, tool, coolant),
                                budget_s=90 if tier == "quick" else 300,
                                entry=f"GCodeBuilder.{step.name.split(':')[0].split('(')[0]}"))
    return out
