"""C12 — interpolation honours the configured resolution (sample-count arithmetic and the real
segment filter, on constant-speed curves measured in arc length)."""

import importlib

import numpy as _np

from ..runner import Cell
from ..driver import Finite, assume
from .common import *  # noqa: F401,F403

tracer_mod = importlib.import_module("gscrib.geometry.tracer")

PROPERTY_ID = "C12"
FUNCTIONS = [
    "PathTracer.parametric (sample count = max(2, int(10*length/resolution)), emission loop)",
    "PathTracer._filter_segments (real control flow; numpy array primitives replaced by list versions)",
    "GCodeBuilder.set_length_units/set_resolution (resolution rescaling through pixels)",
    "LengthUnits.scale/to_pixels", "GCodeCore.to_distance_mode, GCodeCore.move",
]
BOUNDS = ("Decided for constant-speed curves in ARC-LENGTH terms only: the curve function is a stub "
          "that places the sample for parameter theta at arc length theta*L on a straight 3D line (direction 0.6,0,0.8) "
          "(what arc, circle and constant-radius helix do up to the chord/arc difference, which is "
          "NOT examined). Cell grid: number of oversampled points N = 2..40 (quick: 2..24) x "
          "resolution {0.1, 1.0, 0.5} x distance mode. Solver over: the path length L with "
          "N <= 10*L/resolution < N+1. The real parametric() and the real _filter_segments() loop "
          "run; np.diff / np.linalg.norm / np.vstack / mask indexing are replaced by list versions "
          "working on symbolic arc lengths. Checked on the emitted G1 vertices: the path ends "
          "exactly at L; vertices strictly advance; no segment longer than 1.12 resolution units; "
          "every segment except the first and the last at least 0.9 resolution units minus 1e-9; "
          "hence (m-2)*0.9*res <= L <= m*1.12*res for the segment count m. Halving the resolution "
          "(N -> 2N or 2N+1) never yields fewer segments (N = 2..12). The length arc() hands to parametric() is hypot(radius x sweep, Z travel) "
          "(numpy hypot/arctan2 return recognisable dummies). Units switch: for every "
          "resolution r > 0, mm -> in -> mm returns r (up to 1e-9 relative) and mm -> in divides by "
          "25.4. NOT decided: chord lengths of curved shapes, chord-error bound, shapes that are "
          "not constant speed (spline, spiral). Plus second-path cells: two paths in a row on one builder (the first at a 10x coarser resolution, or traversed at a non-constant speed with more samples, or identical), the second starting where the first ended; solver over both lengths; the segments of the SECOND path meet the same bounds.")
ASSUMPTIONS = [
    "samples of a constant-speed curve are equally spaced in arc length (stub curve function)",
    "np.diff, np.linalg.norm, np.hypot/np.abs on coordinate columns, np.vstack and boolean-mask "
    "indexing are modelled exactly for samples that are collinear along a concrete unit vector "
    "(SymPts); np.linspace is the real one (N is concrete per cell); concrete replays use real numpy",
]


U = (0.6, 0.0, 0.8)   # direction of the stub curve: a 3D unit vector with exact components


class SymPts:
    """Samples of a straight constant-speed curve: point i = s_i * U with s_i a (symbolic) arc
    length. Also used for their differences (np.diff)."""
    def __init__(self, xs):
        self.xs = list(xs)

    @property
    def size(self):
        return 3 * len(self.xs)

    @property
    def shape(self):
        return (len(self.xs), 3)

    def __len__(self):
        return len(self.xs)

    @property
    def T(self):
        return [SymCol(self.xs, U[0]), SymCol(self.xs, U[1]), SymCol(self.xs, U[2])]

    def __getitem__(self, idx):
        if isinstance(idx, tuple) and len(idx) == 2 and isinstance(idx[0], slice):
            rows = self.xs[idx[0]]
            if isinstance(idx[1], (int, _np.integer)):
                return SymCol(rows, U[int(idx[1])])
            raise TypeError(idx)
        if isinstance(idx, slice):
            return SymPts(self.xs[idx])
        if isinstance(idx, _np.ndarray) and idx.dtype == bool:
            return SymPts([x for x, keep in zip(self.xs, idx.tolist()) if keep])
        if isinstance(idx, (int, _np.integer)):
            return SymPts([self.xs[int(idx)]])
        raise TypeError(idx)

    def __iter__(self):
        for x in self.xs:
            yield (x * U[0], x * U[1], x * U[2])


class SymCol:
    """One coordinate column of SymPts: values s_i * coeff."""
    def __init__(self, xs, coeff):
        self.xs, self.coeff = list(xs), coeff


def _absval(v):
    return v if v >= 0 else -v


class SymDist(list):
    def __getitem__(self, idx):
        r = list.__getitem__(self, idx)
        return SymDist(r) if isinstance(idx, slice) else r


class _Linalg:
    @staticmethod
    def norm(diffs, axis=None):
        if isinstance(diffs, SymPts):       # |ds * U| = |ds| because |U| = 1
            return SymDist([_absval(d) for d in diffs.xs])
        raise TypeError("norm of an unsupported operand")


class FilterNp:
    """numpy facade for gscrib.geometry.tracer while _filter_segments runs on SymPts."""
    linalg = _Linalg()

    @staticmethod
    def diff(points, axis=0):
        return SymPts([b - a for a, b in zip(points.xs[:-1], points.xs[1:])])

    @staticmethod
    def hypot(a, b):
        if isinstance(a, SymCol) and isinstance(b, SymCol):
            k = (a.coeff * a.coeff + b.coeff * b.coeff) ** 0.5
            return SymDist([_absval(x) * k for x in a.xs])
        return _np.hypot(a, b)

    @staticmethod
    def abs(a):
        if isinstance(a, SymCol):
            return SymDist([_absval(x) * _absval(a.coeff) for x in a.xs])
        return _np.abs(a)

    @staticmethod
    def linspace(start, stop, num):
        # the sample count is pinned to one value per cell: realising it is not a case split
        return _np.linspace(start, stop, int(num))

    @staticmethod
    def vstack(parts):
        out = []
        for p in parts:
            if isinstance(p, SymPts):
                out.extend(p.xs)
            else:                      # a single point (x, y, z) on the line: its arc length
                out.append(p[0] / U[0])
        return SymPts(out)

    def __getattr__(self, name):
        return getattr(_np, name)


def _run_parametric(g, L, N, res, start=0.0, warp=False):
    """Run the real parametric() with the stub curve (a straight run of length L along U that
    begins at arc length `start`; warp=True: traversed at a non-constant speed, s = start + L*t*t);
    returns the exception or None."""
    g.set_resolution(res)
    if not MODE.symbolic:
        # concrete replay: the real numpy code on a real ndarray
        def real_curve(thetas):
            ss = start + L * (thetas * thetas if warp else thetas)
            return _np.column_stack((ss * U[0], ss * U[1], ss * U[2]))
        return attempt(g.trace.parametric, real_curve, L)

    def curve(thetas):
        return SymPts([start + (float(t) * float(t) if warp else float(t)) * L for t in thetas.tolist()])

    old = tracer_mod.np
    tracer_mod.np = FilterNp()
    try:
        return attempt(g.trace.parametric, curve, L)
    finally:
        tracer_mod.np = old


def _vertices(pre, rec):
    m = machine_for(pre, None)
    xs = []
    for line in split_lines(rec.text()):
        m.run_line(line)
        # arc length of the vertex: it lies on s*U, so s = X / U[0]; Y and Z must agree
        sx = m.pos["X"] / U[0]
        if not num_eq(m.pos["Z"], sx * U[2], scale=4.0) or not num_eq(m.pos["Y"], 0.0):
            raise Malformed(f"vertex {tuple(m.pos.values())!r} is not on the curve")
        xs.append(sx)
    return xs


def _make(N, res, rel):
    def h(L: Finite):
        assume(L > 0)
        q = 10 * L / res
        if N == 2:
            assume(q < 3)
        else:
            assume(q >= N)
            assume(q < N + 1)
        pre = mkpre(pos=(0.0, 0.0, 0.0), relative=rel)
        g, rec = prepare(pre)
        rec.clear()
        e = _run_parametric(g, L, N, res)
        if e is not None:
            msg = f"{exc_name(e)}: {e}"
            return V("parametric-unexpected-exception", msg)
        try:
            xs = _vertices(pre, rec)
        except Malformed as mf:
            return V("parametric-malformed-output", str(mf))
        ctx = lambda: f"L={L!r} res={res} N={N}: vertices {xs!r}"  # noqa: E731
        if not xs:
            return V("no-segments-emitted", ctx)
        if not num_eq(xs[-1], L, scale=4.0):
            return V("path-does-not-end-on-target", ctx)
        prev = 0.0
        m = len(xs)
        for k, x in enumerate(xs):
            seg = x - prev
            if not (seg > 0):
                return V("vertices-do-not-advance", ctx)
            if seg > 1.12 * res:
                return V("segment-longer-than-resolution",
                         lambda: f"segment {k} has length {seg!r}; {ctx()}")
            if 0 < k < m - 1 and seg < 0.9 * res - 1e-9:
                return V("inner-segment-shorter-than-0.9-resolution",
                         lambda: f"segment {k} has length {seg!r}; {ctx()}")
            prev = x
        reached("checked")
        return None
    return h


def _make_second(N, res, prev):
    """Two paths traced one after the other on the same builder; the second one starts where the
    first ended. The segments of the SECOND path are held to the same bounds as those of a path on
    a fresh builder (nothing of the first path's spacing, resolution or sample pattern may carry
    over). prev: 'coarse-short' = a short path at a 10x coarser resolution, 'warped' = a path with
    at least as many samples traversed at a non-constant speed, 'same' = an identical path."""
    def h(L1: Finite, L: Finite):
        assume(L > 0)
        assume(L1 > 0)
        q = 10 * L / res
        if N == 2:
            assume(q < 3)
        else:
            assume(q >= N)
            assume(q < N + 1)
        if prev == "coarse-short":
            res1 = 10 * res
            assume(10 * L1 / res1 < 3)
        else:
            res1 = res
            q1 = 10 * L1 / res1
            assume(q1 >= N + 1)
            assume(q1 < N + 2)
        pre = mkpre(pos=(0.0, 0.0, 0.0))
        g, rec = prepare(pre)
        rec.clear()
        e = _run_parametric(g, L1, None, res1, warp=(prev == "warped"))
        if e is not None:
            msg = f"{exc_name(e)}: {e}"
            return V("parametric-unexpected-exception", lambda: f"first path: {msg}")
        n1 = len(split_lines(rec.text()))
        e = _run_parametric(g, L, N, res, start=L1)
        if e is not None:
            msg = f"{exc_name(e)}: {e}"
            return V("parametric-unexpected-exception", lambda: f"second path: {msg}")
        try:
            allx = _vertices(pre, rec)
        except Malformed as mf:
            return V("parametric-malformed-output", str(mf))
        xs = allx[n1:]
        ctx = lambda: f"first path L1={L1!r} at res {res1} ({prev}), second L={L!r} res={res} N={N}: vertices {allx!r}"  # noqa: E731
        if n1 == 0 or not num_eq(allx[n1 - 1], L1, scale=4.0):
            return V("path-does-not-end-on-target", lambda: "first path; " + ctx())
        if not xs:
            return V("no-segments-emitted", ctx)
        if not num_eq(xs[-1], L1 + L, scale=4.0):
            return V("path-does-not-end-on-target", ctx)
        prevx = allx[n1 - 1]
        m = len(xs)
        for k, x in enumerate(xs):
            seg = x - prevx
            if not (seg > 0):
                return V("vertices-do-not-advance", ctx)
            if seg > 1.12 * res:
                return V("second-path-segment-longer-than-resolution",
                         lambda: f"segment {k} has length {seg!r}; {ctx()}")
            if 0 < k < m - 1 and seg < 0.9 * res - 1e-9:
                return V("second-path-inner-segment-shorter-than-0.9-resolution",
                         lambda: f"segment {k} has length {seg!r}; {ctx()}")
            prevx = x
        reached("checked")
        return None
    return h


def _make_halving(N, res):
    def h(L: Finite):
        assume(L > 0)
        q = 10 * L / res
        if N == 2:
            assume(q < 3)
        else:
            assume(q >= N)
            assume(q < N + 1)
        counts = []
        for r in (res, res / 2):
            pre = mkpre(pos=(0.0, 0.0, 0.0))
            g, rec = prepare(pre)
            rec.clear()
            n_here = None
            e = _run_parametric(g, L, n_here, r)
            if e is not None:
                msg = f"{exc_name(e)}: {e}"
                return V("parametric-unexpected-exception", msg)
            counts.append(len(split_lines(rec.text())))
        if counts[1] < counts[0]:
            return V("halving-the-resolution-gave-fewer-segments",
                     lambda: f"L={L!r}: {counts[0]} segments at {res}, {counts[1]} at {res / 2}")
        reached("checked")
        return None
    return h


def _make_units():
    def h(r: Finite, r2: Finite):
        assume(r > 0)
        assume(r <= 1e6)
        assume(r2 > 0)
        assume(r2 <= 1e6)
        pre = mkpre(pos=(0.0, 0.0, 0.0))
        g, rec = prepare(pre)
        g.set_resolution(r)
        g.set_length_units("inches")
        inch = g.state.resolution
        d = inch * 25.4 - r
        if d > 1e-9 * r or -d > 1e-9 * r:
            return V("units-switch-does-not-rescale-resolution",
                     lambda: f"{r!r} mm became {inch!r} in")
        g.set_length_units("millimeters")
        back = g.state.resolution
        d = back - r
        if d > 1e-9 * r or -d > 1e-9 * r:
            return V("units-round-trip-changes-resolution", lambda: f"{r!r} -> {back!r}")
        g.set_length_units("millimeters")
        if g.state.resolution != back:
            return V("same-units-changes-resolution", lambda: f"{back!r} -> {g.state.resolution!r}")
        # a resolution set while in inches is what the next switch converts
        g.set_length_units("inches")
        g.set_resolution(r2)
        g.set_length_units("millimeters")
        d = g.state.resolution - r2 * 25.4
        if d > 1e-9 * r2 * 25.4 or -d > 1e-9 * r2 * 25.4:
            return V("resolution-set-between-switches-is-lost",
                     lambda: f"set_resolution({r2!r}) in inches, then mm: {g.state.resolution!r}, "
                             f"expected {r2 * 25.4!r}")
        reached("checked")
        return None
    return h


def cells(tier):
    out = []
    quick = tier == "quick"
    for N in range(2, 25 if quick else 41):
        for res in ((0.1,) if quick and N % 2 else (0.1, 1.0, 0.5)):
            for rel in ((False,) if quick and N > 12 else (False, True)):
                out.append(Cell(f"filter|N={N}|res={res}|{'rel' if rel else 'abs'}", _make(N, res, rel),
                                budget_s=200 if quick else 900, must_reach=("checked",),
                                entry="PathTracer.parametric/_filter_segments"))
    for N in ((6, 14, 23) if quick else range(2, 31)):
        for prev in ("coarse-short", "warped", "same"):
            out.append(Cell(f"second-path|N={N}|res=0.1|after={prev}", _make_second(N, 0.1, prev),
                            budget_s=300 if quick else 900, must_reach=("checked",),
                            entry="PathTracer.parametric/_filter_segments (two paths in a row)"))
    for N in range(2, 9 if quick else 13):
        out.append(Cell(f"halving|N={N}|res=0.1", _make_halving(N, 0.1), budget_s=300 if quick else 900,
                        must_reach=("checked",), entry="PathTracer.parametric"))
    # the path length handed to parametric() by arc(): hypot(radius x sweep, Z travel)
    from .c10 import _make_arc_height
    for rel in (False, True):
        for direction in ("clockwise", "counter"):
            out.append(Cell(f"arc-path-length|{'rel' if rel else 'abs'}|3d|{direction}",
                            _make_arc_height(rel, 3, direction), budget_s=120, must_reach=("captured",),
                            entry="PathTracer.arc (length handed to parametric)"))
    out.append(Cell("units-switch-rescales-resolution", _make_units(), budget_s=120,
                    must_reach=("checked",), entry="GCodeBuilder.set_length_units"))
    return out
