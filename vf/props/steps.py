"""Catalogue of single builder calls ("steps") used by C02, C03, C05, C07.

Each step names one public GCodeBuilder call with its discrete choices fixed
(enum values, which keyword parameters are present); the numeric arguments
are the symbolic floats ``f[...]`` and ints ``n[...]`` of the harness.

Per step:
  call(g, f, n)        performs the call
  argbad(f, n)         True when a documented argument-validation rule rejects
                       the call (negative/non-finite value, OFF passed to an
                       on-call, tool number < 1, fan speed outside 0..255 ...)
  interlock            None | 'tool-start' | 'coolant-start' | 'needs-idle'
  nf, ni               how many symbolic floats / ints the step uses
"""

import math
from dataclasses import dataclass, field
from typing import Any, Callable, List, Optional


def _nonfinite(x) -> bool:
    return x != x or x == math.inf or x == -math.inf


def _neg_or_nonfinite(x) -> bool:
    return _nonfinite(x) or x < 0


@dataclass
class Step:
    name: str
    call: Callable
    nf: int = 0
    ni: int = 0
    argbad: Callable = lambda f, n: False
    interlock: Optional[str] = None
    group: str = "misc"
    # what the step should do to the reference machine is checked by each oracle


STEPS: List[Step] = []


def _add(*a, **kw):
    STEPS.append(Step(*a, **kw))


# ---------------------------------------------------------------- motion --
for _kind in ("move", "rapid", "move_absolute", "rapid_absolute"):
    _add(f"{_kind}(x)", (lambda k: lambda g, f, n: getattr(g, k)(x=f[0]))(_kind), nf=1,
         argbad=lambda f, n: _nonfinite(f[0]), group="motion")
    _add(f"{_kind}(x,F)", (lambda k: lambda g, f, n: getattr(g, k)(x=f[0], F=f[1]))(_kind), nf=2,
         argbad=lambda f, n: _nonfinite(f[0]) or _neg_or_nonfinite(f[1]), group="motion")
    _add(f"{_kind}(y,S)", (lambda k: lambda g, f, n: getattr(g, k)(y=f[0], S=f[1]))(_kind), nf=2,
         argbad=lambda f, n: _nonfinite(f[0]) or _neg_or_nonfinite(f[1]), group="motion")
    _add(f"{_kind}(z,F,S)", (lambda k: lambda g, f, n: getattr(g, k)(z=f[0], F=f[1], S=f[2]))(_kind),
         nf=3, argbad=lambda f, n: _nonfinite(f[0]) or _neg_or_nonfinite(f[1]) or _neg_or_nonfinite(f[2]),
         group="motion")
_add("move(x,E)", lambda g, f, n: g.move(x=f[0], E=f[1]), nf=2,
     argbad=lambda f, n: _nonfinite(f[0]) or _nonfinite(f[1]), group="motion")
# the same words under lower-case keyword names (parameter names are case-insensitive)
_add("move(y,f,s)", lambda g, f, n: g.move(y=f[0], f=f[1], s=f[2]), nf=3,
     argbad=lambda f, n: _nonfinite(f[0]) or _neg_or_nonfinite(f[1]) or _neg_or_nonfinite(f[2]),
     group="motion")
_add("move(F)", lambda g, f, n: g.move(F=f[0]), nf=1,
     argbad=lambda f, n: _neg_or_nonfinite(f[0]), group="motion")
for _mode in ("towards", "away-no-error"):
    _add(f"probe:{_mode}(z)", (lambda m: lambda g, f, n: g.probe(m, z=f[0]))(_mode), nf=1,
         argbad=lambda f, n: _nonfinite(f[0]), group="motion")
    _add(f"probe:{_mode}(z,F)", (lambda m: lambda g, f, n: g.probe(m, z=f[0], F=f[1]))(_mode), nf=2,
         argbad=lambda f, n: _nonfinite(f[0]) or _neg_or_nonfinite(f[1]), group="motion")
_add("set_axis(x)", lambda g, f, n: g.set_axis(x=f[0]), nf=1,
     argbad=lambda f, n: _nonfinite(f[0]), group="motion")
_add("set_axis(x,E)", lambda g, f, n: g.set_axis(x=f[0], E=f[1]), nf=2,
     argbad=lambda f, n: _nonfinite(f[0]) or _nonfinite(f[1]), group="motion")
_add("auto_home()", lambda g, f, n: g.auto_home(), group="motion")
_add("auto_home(x)", lambda g, f, n: g.auto_home(x=f[0]), nf=1,
     argbad=lambda f, n: _nonfinite(f[0]), group="motion")

# ----------------------------------------------------------------- modal --
_add("set_feed_rate", lambda g, f, n: g.set_feed_rate(f[0]), nf=1,
     argbad=lambda f, n: _neg_or_nonfinite(f[0]), group="modal")
_add("set_tool_power", lambda g, f, n: g.set_tool_power(f[0]), nf=1,
     argbad=lambda f, n: _neg_or_nonfinite(f[0]), group="modal")
_add("set_fan_speed", lambda g, f, n: g.set_fan_speed(f[0], n[0]), nf=1, ni=1,
     argbad=lambda f, n: _nonfinite(f[0]) or f[0] < 0 or f[0] > 255 or n[0] < 0, group="modal")
for _t in ("bed", "hotend", "chamber"):
    _add(f"set_{_t}_temperature", (lambda t: lambda g, f, n: getattr(g, f"set_{t}_temperature")(f[0]))(_t),
         nf=1, argbad=lambda f, n: _nonfinite(f[0]), group="modal")
_add("sleep", lambda g, f, n: g.sleep(f[0]), nf=1,
     argbad=lambda f, n: _neg_or_nonfinite(f[0]), group="modal")
_add("set_resolution", lambda g, f, n: g.set_resolution(f[0]), nf=1,
     argbad=lambda f, n: not (f[0] > 0), group="modal")
for _u in ("inches", "millimeters"):
    _add(f"set_length_units:{_u}", (lambda u: lambda g, f, n: g.set_length_units(u))(_u), group="modal")
for _u in ("seconds", "milliseconds"):
    _add(f"set_time_units:{_u}", (lambda u: lambda g, f, n: g.set_time_units(u))(_u), group="modal")
for _u in ("celsius", "kelvin"):
    _add(f"set_temperature_units:{_u}", (lambda u: lambda g, f, n: g.set_temperature_units(u))(_u),
         group="modal")
for _u in ("xy", "yz", "zx"):
    _add(f"set_plane:{_u}", (lambda u: lambda g, f, n: g.set_plane(u))(_u), group="modal")
for _u in ("clockwise", "counter"):
    _add(f"set_direction:{_u}", (lambda u: lambda g, f, n: g.set_direction(u))(_u), group="modal")
for _u in ("absolute", "relative"):
    _add(f"set_distance_mode:{_u}", (lambda u: lambda g, f, n: g.set_distance_mode(u))(_u), group="modal")
    _add(f"set_extrusion_mode:{_u}", (lambda u: lambda g, f, n: g.set_extrusion_mode(u))(_u), group="modal")
for _u in ("1/time", "units/min", "units/rev"):
    _add(f"set_feed_mode:{_u}", (lambda u: lambda g, f, n: g.set_feed_mode(u))(_u), group="modal")
for _u in ("position", "temperature"):
    _add(f"query:{_u}", (lambda u: lambda g, f, n: g.query(u))(_u), group="modal")
_add("comment", lambda g, f, n: g.comment("note"), group="modal")
_add("annotate", lambda g, f, n: g.annotate("key", "value"), group="modal")

# ------------------------------------------------------ tool and coolant --
for _m in ("cw", "ccw"):
    _add(f"tool_on:{_m}", (lambda m: lambda g, f, n: g.tool_on(m, f[0]))(_m), nf=1,
         argbad=lambda f, n: _neg_or_nonfinite(f[0]), interlock="tool-start", group="tool")
_add("tool_on:off", lambda g, f, n: g.tool_on("off", f[0]), nf=1,
     argbad=lambda f, n: True, interlock=None, group="tool")
for _m in ("constant", "dynamic"):
    _add(f"power_on:{_m}", (lambda m: lambda g, f, n: g.power_on(m, f[0]))(_m), nf=1,
         argbad=lambda f, n: _neg_or_nonfinite(f[0]), interlock="tool-start", group="tool")
_add("power_on:off", lambda g, f, n: g.power_on("off", f[0]), nf=1,
     argbad=lambda f, n: True, group="tool")
_add("tool_off", lambda g, f, n: g.tool_off(), group="tool")
_add("power_off", lambda g, f, n: g.power_off(), group="tool")
for _m in ("mist", "flood"):
    _add(f"coolant_on:{_m}", (lambda m: lambda g, f, n: g.coolant_on(m))(_m),
         interlock="coolant-start", group="tool")
_add("coolant_on:off", lambda g, f, n: g.coolant_on("off"), argbad=lambda f, n: True, group="tool")
_add("coolant_off", lambda g, f, n: g.coolant_off(), group="tool")
for _m in ("automatic", "manual"):
    _add(f"tool_change:{_m}", (lambda m: lambda g, f, n: g.tool_change(m, n[0]))(_m), ni=1,
         argbad=lambda f, n: n[0] < 1, interlock="needs-idle", group="tool")
_add("tool_change:off", lambda g, f, n: g.tool_change("off", n[0]), ni=1,
     argbad=lambda f, n: True, group="tool")

# ------------------------------------------------------------------ halt --
HALT_MODES = ["pause", "optional-pause", "end-without-reset", "end-with-reset", "pallet-exchange",
              "wait-for-bed", "wait-for-hotend", "wait-for-chamber", "wait-for-motion"]
for _m in HALT_MODES:
    _add(f"halt:{_m}", (lambda m: lambda g, f, n: g.halt(m))(_m), interlock="needs-idle", group="halt")
for _m in ("wait-for-bed", "wait-for-hotend", "wait-for-chamber"):
    _add(f"halt:{_m}(S)", (lambda m: lambda g, f, n: g.halt(m, S=f[0]))(_m), nf=1,
         argbad=lambda f, n: _nonfinite(f[0]), interlock="needs-idle", group="halt")
    _add(f"halt:{_m}(R)", (lambda m: lambda g, f, n: g.halt(m, R=f[0]))(_m), nf=1,
         argbad=lambda f, n: _nonfinite(f[0]), interlock="needs-idle", group="halt")
_add("halt:wait-for-bed(s)", lambda g, f, n: g.halt("wait-for-bed", s=f[0]), nf=1,
     argbad=lambda f, n: _nonfinite(f[0]), interlock="needs-idle", group="halt")
_add("halt:wait-for-hotend(r)", lambda g, f, n: g.halt("wait-for-hotend", r=f[0]), nf=1,
     argbad=lambda f, n: _nonfinite(f[0]), interlock="needs-idle", group="halt")
_add("halt:pause(S)", lambda g, f, n: g.halt("pause", S=f[0]), nf=1,
     argbad=lambda f, n: _nonfinite(f[0]), interlock="needs-idle", group="halt")
_add("halt:off", lambda g, f, n: g.halt("off"), argbad=lambda f, n: True, group="halt")
_add("wait", lambda g, f, n: g.wait(), interlock="needs-idle", group="halt")
_add("pause", lambda g, f, n: g.pause(), interlock="needs-idle", group="halt")
_add("pause:optional", lambda g, f, n: g.pause(True), interlock="needs-idle", group="halt")
_add("stop", lambda g, f, n: g.stop(), interlock="needs-idle", group="halt")
_add("stop:reset", lambda g, f, n: g.stop(True), interlock="needs-idle", group="halt")
_add("emergency_halt", lambda g, f, n: g.emergency_halt("msg"), group="halt")
_add("emergency_halt:reset", lambda g, f, n: g.emergency_halt("msg", True), group="halt")

BY_NAME = {s.name: s for s in STEPS}

TOOLS = [None, ("spin", "cw"), ("spin", "ccw"), ("power", "constant"), ("power", "dynamic")]
COOLANTS = [None, "mist", "flood"]


def tool_label(t):
    return "off" if t is None else f"{t[0]}-{t[1]}"
