"""Shared builder fixture (DESIGN §3).

``build(pre, via)`` returns a GCodeBuilder with a recording writer in the
pre-state described by ``pre``:

* via="private": fields are assigned directly (the inductive pre-state used
  under symbolic execution),
* via="public": the same state is reached through public API calls only
  (used by replays, so that a counterexample is only ever reported from a
  state a real history reaches). ``Unreachable`` is raised when the public
  construction does not end in the requested state.
"""

from __future__ import annotations

import math
from typing import Any, Dict, List, Optional

from gscrib import GCodeBuilder
from gscrib.enums import (
    CoolantMode, DistanceMode, ExtrusionMode, FeedMode, HaltMode, LengthUnits,
    Plane, PowerMode, SpinMode, TemperatureUnits, TimeUnits, ToolSwapMode,
    Direction,
)
from gscrib.geometry import Point
from gscrib.params import ParamsDict
from gscrib.writers import BaseWriter


class Unreachable(Exception):
    """The requested pre-state is not reachable through the public API."""


class Rec(BaseWriter):
    """Pure-Python recording writer (public add_writer API)."""

    def __init__(self):
        self.chunks: List[bytes] = []
        self.setup_text = ""

    def connect(self):
        return self

    def disconnect(self, wait: bool = True) -> None:
        pass

    def write(self, statement: bytes) -> None:
        self.chunks.append(statement)

    def text(self) -> str:
        out = ""
        for c in self.chunks:
            out = out + c.decode("utf-8")
        return out

    def clear(self) -> None:
        self.chunks.clear()


DEFAULT_PRE: Dict[str, Any] = dict(
    pos=(None, None, None),      # builder position (core and state copies)
    mknown=(True, True, True),   # does the machine know the axis (only where pos is not None)
    fresh=False,                 # True: never moved (state.position is 0,0,0)
    relative=False,
    feed=0,
    power=0,
    tool=None,                   # None | ("spin", "cw"/"ccw") | ("power", "constant"/"dynamic")
    stale_spin=SpinMode.OFF,     # spin/power mode fields when tool inactive
    stale_power=PowerMode.OFF,
    coolant=None,                # None | "mist" | "flood"
    halt=None,                   # None | HaltMode value string
    tool_number=0,
    tool_swap="off",
    temps=(None, None, None),    # hotend, bed, chamber (None = never set)
    bounds={},                   # name -> (min, max)
    extrusion="absolute",
    params={},                   # remembered move parameters beyond X/Y/Z
    line_ending="\n",
    decimal_places=None,
    comment_symbols=None,
)


def mkpre(**kw) -> Dict[str, Any]:
    pre = dict(DEFAULT_PRE)
    for k in kw:
        if k not in pre:
            raise KeyError(k)
    pre.update(kw)
    return pre


def _new_builder(pre):
    kw = dict(line_endings=pre["line_ending"].encode("unicode-escape").decode("ascii"))
    if pre["decimal_places"] is not None:
        kw["decimal_places"] = pre["decimal_places"]
    if pre["comment_symbols"] is not None:
        kw["comment_symbols"] = pre["comment_symbols"]
    g = GCodeBuilder(**kw)
    rec = Rec()
    g.add_writer(rec)
    return g, rec


def build(pre: Dict[str, Any], via: str = "private"):
    g, rec = _new_builder(pre)
    if via == "private":
        _install_private(g, pre)
    elif via == "public-unchecked":
        # symbolic runs that want a TRUE history as pre-state: the public calls only
        _install_public(g, pre)
    else:
        _install_public(g, pre)
        want = build(pre, "private")[0]
        a, b = snapshot(g), snapshot(want)
        diff = diff_snapshots(a, b, ignore=("params_xyz",))
        if diff:
            raise Unreachable(f"public construction differs from requested pre-state: {diff}")
    rec.setup_text = rec.text()
    rec.clear()
    return g, rec


def _install_private(g: GCodeBuilder, pre) -> None:
    s = g.state
    if not pre["fresh"]:
        p = Point(*pre["pos"])
        g._current_axes = p
        s._current_axes = p
        s._current_params = g._current_params
    else:
        if pre["pos"] != (None, None, None):
            raise ValueError("fresh pre-state must have unknown position")
    for k, v in pre["params"].items():
        g._current_params[k] = v
    mode = DistanceMode.RELATIVE if pre["relative"] else DistanceMode.ABSOLUTE
    g._distance_mode = mode
    s._current_distance_mode = mode
    s._current_feed_rate = pre["feed"]
    s._current_tool_power = pre["power"]
    s._current_spin_mode = SpinMode(pre["stale_spin"])
    s._current_power_mode = PowerMode(pre["stale_power"])
    if pre["tool"] is not None:
        kind, m = pre["tool"]
        s._is_tool_active = True
        if kind == "spin":
            s._current_spin_mode = SpinMode(m)
        else:
            s._current_power_mode = PowerMode(m)
    if pre["coolant"] is not None:
        s._is_coolant_active = True
        s._current_coolant_mode = CoolantMode(pre["coolant"])
    if pre["halt"] is not None:
        s._current_halt_mode = HaltMode(pre["halt"])
    s._current_tool_number = pre["tool_number"]
    s._current_tool_swap_mode = ToolSwapMode(pre["tool_swap"])
    s._current_extrusion_mode = ExtrusionMode(pre["extrusion"])
    th, tb, tc = pre["temps"]
    if th is not None:
        s._target_hotend_temperature = th
    if tb is not None:
        s._target_bed_temperature = tb
    if tc is not None:
        s._target_chamber_temperature = tc
    for name, (lo, hi) in pre["bounds"].items():
        if name == "axes":
            lo, hi = Point(*lo), Point(*hi)
        s._user_bounds._bounds[name] = (lo, hi)


def _install_public(g: GCodeBuilder, pre) -> None:
    try:
        # limits are configured twice, as users do: generous ones first (so that every value of the
        # history passes through the validators), the requested ones at the end
        wide = 1.0e9
        for name in pre["bounds"]:
            if name == "axes":
                g.set_bounds(name, (-wide, -wide, -wide), (wide, wide, wide))
            elif name == "tool-number":
                g.set_bounds(name, 0, 1000000)
            else:
                g.set_bounds(name, -wide, wide)
        if pre["extrusion"] != "absolute":
            g.set_extrusion_mode(pre["extrusion"])
        if pre["tool_swap"] != "off":
            g.tool_change(pre["tool_swap"], pre["tool_number"])
        if not pre["fresh"]:
            pos, mk = pre["pos"], pre["mknown"]
            # axes the builder has a number for but the machine does not know:
            # a relative move from the unknown start (builder assumes 0, machine stays unknown)
            drift = {a: v for a, v, k in zip("xyz", pos, mk) if v is not None and not k}
            if drift:
                g.set_distance_mode("relative")
                g.move(**drift)
                g.set_distance_mode("absolute")
            sync = {a: v for a, v, k in zip("xyz", pos, mk) if v is not None and k}
            g.set_axis(**sync, **pre["params"])
            lost = {a: 5.0 for a, v in zip("xyz", pos) if v is None}
            if lost and (drift or sync):
                g.auto_home(**lost)
        elif pre["params"]:
            raise Unreachable("fresh state has no remembered parameters")
        if pre["relative"]:
            g.set_distance_mode("relative")
        g.set_feed_rate(pre["feed"])
        # stale spin/power fields: switch on and off again
        tool = pre["tool"]
        if SpinMode(pre["stale_spin"]) != SpinMode.OFF and not (tool and tool[0] == "spin"):
            g.tool_on(pre["stale_spin"], 1.0)
            g.power_off()
        if PowerMode(pre["stale_power"]) != PowerMode.OFF and not (tool and tool[0] == "power"):
            g.power_on(pre["stale_power"], 1.0)
            g.tool_off()
        if tool is not None:
            kind, m = tool
            if kind == "spin":
                g.tool_on(m, pre["power"])
            else:
                g.power_on(m, pre["power"])
        else:
            g.set_tool_power(pre["power"])
        if pre["coolant"] is not None:
            g.coolant_on(pre["coolant"])
        th, tb, tc = pre["temps"]
        if th is not None:
            g.set_hotend_temperature(th)
        if tb is not None:
            g.set_bed_temperature(tb)
        if tc is not None:
            g.set_chamber_temperature(tc)
        if pre["halt"] is not None:
            g.halt(pre["halt"])
        for name, (lo, hi) in pre["bounds"].items():
            g.set_bounds(name, lo, hi)
    except Unreachable:
        raise
    except Exception as e:  # noqa: BLE001
        raise Unreachable(f"public construction raised {type(e).__name__}: {e}") from e


def _same(a, b) -> bool:
    if a is b:
        return True
    if a is None or b is None:
        return False
    if isinstance(a, (tuple, list)) and isinstance(b, (tuple, list)):
        return len(a) == len(b) and all(_same(x, y) for x, y in zip(a, b))
    if isinstance(a, dict) and isinstance(b, dict):
        return set(a.keys()) == set(b.keys()) and all(_same(a[k], b[k]) for k in a)
    if isinstance(a, str) or isinstance(b, str):
        return a == b
    if a == b:
        return True
    try:
        return bool(a != a) and bool(b != b)  # both NaN
    except Exception:  # noqa: BLE001
        return False


def snapshot(g: GCodeBuilder) -> Dict[str, Any]:
    """All observable tracked state named in C05/C07."""
    s = g.state
    params = dict(g._current_params)
    sparams = dict(s._current_params)
    return dict(
        position=tuple(g.position),
        state_position=tuple(s.position),
        distance_mode=str(g.distance_mode.value),
        state_distance_mode=str(s.distance_mode.value),
        feed_rate=s.feed_rate,
        tool_power=s.tool_power,
        is_tool_active=s.is_tool_active,
        is_coolant_active=s.is_coolant_active,
        spin_mode=str(s.spin_mode.value),
        power_mode=str(s.power_mode.value),
        coolant_mode=str(s.coolant_mode.value),
        halt_mode=str(s.halt_mode.value),
        tool_number=s.tool_number,
        tool_swap_mode=str(s.tool_swap_mode.value),
        extrusion_mode=str(s.extrusion_mode.value),
        feed_mode=str(s.feed_mode.value),
        length_units=str(s.length_units.value),
        time_units=str(s.time_units.value),
        temperature_units=str(s.temperature_units.value),
        plane=str(s.plane.value),
        direction=str(s.direction.value),
        resolution=s.resolution,
        target_hotend=s.target_hotend_temperature,
        target_bed=s.target_bed_temperature,
        target_chamber=s.target_chamber_temperature,
        params={k: v for k, v in params.items() if k not in ("X", "Y", "Z")},
        params_xyz={k: v for k, v in params.items() if k in ("X", "Y", "Z")},
        state_params={k: v for k, v in sparams.items() if k not in ("X", "Y", "Z")},
    )


def diff_snapshots(a: Dict[str, Any], b: Dict[str, Any], ignore=()) -> List[str]:
    out = []
    for k in a:
        if k in ignore:
            continue
        if not _same(a[k], b[k]):
            out.append(k)
    return out
