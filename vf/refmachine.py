"""Independent reference G-code lexer and modal interpreter (the oracle).

Written from the G-code semantics named in the property statements; it does
not import gscrib. Numbers in the emitted text are either plain decimals or
opaque tokens ``#k#`` (see shims.py) that stand for a symbolic value.

Semantics implemented
  G0/G00/G1/G01  absolute: mentioned axes := value
                 relative: mentioned axes += value (unknown stays unknown)
  G90 / G91      distance mode
  G92            mentioned axes := value (now known)
  G28            mentioned axes (all, if none mentioned) become unknown
  G38.2-G38.5    mentioned axes become unknown
  M3/M4/M5       tool on (remember code) / off
  M7/M8/M9       coolant on (remember code) / off
  M6 + T         tool change
  F, S words     feed rate / tool power when alone, on G0/G1/G28/G38.x/G92 blocks, S also on M3/M4
  M82/M83, G20/G21, G17/G18/G19, G93/G94/G95
  M104/M109 S|R, M140/M190 S|R, M141/M191 S|R target temperatures
  M0 M1 M2 M30 M60 M109 M190 M191 M400 are "halt/wait" codes
Initial machine state: all axes unknown, G90, everything off.
"""

from __future__ import annotations

import re
from typing import Any, Dict, List, Optional, Tuple

UNKNOWN = None

_WORD_RE = re.compile(r"^([A-Za-z])(#\d+#|[-+]?(?:\d+\.?\d*|\.\d+))$")

HALT_CODES = {"M0", "M1", "M2", "M30", "M60", "M109", "M190", "M191", "M400"}

BRACKETS = {"(": ")", "[": "]", "{": "}", "<": ">", '"': '"', "'": "'", "/*": "*/"}


class Malformed(Exception):
    pass


def strip_comments(text: str, opener: str = ";") -> Tuple[str, List[str]]:
    """Remove comments from one line (without its terminator).

    Returns (executable text, list of comment bodies). For the bracketed
    styles a comment runs from the opener to the first closer after it; an
    opener without a closer is malformed. For any other opener the comment
    runs to the end of the line.
    """
    closer = BRACKETS.get(opener)
    comments: List[str] = []
    if closer is None:
        idx = text.find(opener)
        if idx < 0:
            return text, comments
        comments.append(text[idx + len(opener):])
        return text[:idx], comments
    out = []
    pos = 0
    while True:
        start = text.find(opener, pos)
        if start < 0:
            out.append(text[pos:])
            break
        end = text.find(closer, start + len(opener))
        if end < 0:
            raise Malformed(f"unterminated comment in {text!r}")
        out.append(text[pos:start])
        comments.append(text[start + len(opener):end])
        pos = end + len(closer)
    return "".join(out), comments


def canon_code(letter: str, text: str) -> str:
    """'G01' -> 'G1', 'M06' -> 'M6', 'G38.2' -> 'G38.2'."""
    if "." in text:
        head, tail = text.split(".", 1)
        return f"{letter}{int(head)}.{tail}"
    return f"{letter}{int(text)}"


class Word:
    __slots__ = ("letter", "text", "value")

    def __init__(self, letter: str, text: str, value: Any):
        self.letter = letter
        self.text = text
        self.value = value

    def __repr__(self):
        return f"{self.letter}{self.text}"


def parse_block(code_text: str, tokens=None) -> List[Word]:
    """Split executable text into address words."""
    words = []
    for raw in code_text.split():
        m = _WORD_RE.match(raw)
        if not m:
            raise Malformed(f"not an address word: {raw!r}")
        letter, text = m.group(1).upper(), m.group(2)
        if text.startswith("#"):
            if tokens is None:
                raise Malformed(f"token without table: {raw!r}")
            value = tokens.values[int(text[1:-1])][0]
        else:
            value = float(text)
        words.append(Word(letter, text, value))
    return words


def split_lines(data: str, ending: str = "\n") -> List[str]:
    """Split output into lines; every line must end with the terminator."""
    if data == "":
        return []
    if not data.endswith(ending):
        raise Malformed(f"output does not end with terminator: {data!r}")
    return data[: -len(ending)].split(ending)


class RefMachine:
    """Modal G-code interpreter (see module docstring)."""

    def __init__(self, tokens=None, opener: str = ";"):
        self.tokens = tokens
        self.opener = opener
        self.pos: Dict[str, Any] = {"X": UNKNOWN, "Y": UNKNOWN, "Z": UNKNOWN}
        self.relative = False
        self.tool_on = False
        self.tool_code: Optional[str] = None
        self.coolant_on = False
        self.coolant_code: Optional[str] = None
        self.tool_number: Any = None
        self.feed: Any = None
        self.power: Any = None
        self.extrusion_relative: Optional[bool] = None
        self.units: Optional[str] = None
        self.plane: Optional[str] = None
        self.feed_mode: Optional[str] = None
        self.temps: Dict[str, Any] = {}
        self.params: Dict[str, Any] = {}
        self.events: List[Tuple[str, Any]] = []  # (kind, info) safety-relevant
        self.blocks: List[List[Word]] = []

    # -- execution -------------------------------------------------------
    def run_line(self, line: str) -> List[Word]:
        code, _comments = strip_comments(line, self.opener)
        words = parse_block(code, self.tokens)
        self.blocks.append(words)
        self.run_block(words)
        return words

    def run_text(self, data: str, ending: str = "\n") -> None:
        for line in split_lines(data, ending):
            self.run_line(line)

    def run_block(self, words: List[Word]) -> None:
        if not words:
            return
        codes = [canon_code(w.letter, w.text) for w in words if w.letter in "GM"
                 and not w.text.startswith("#")]
        args = {w.letter: w.value for w in words if w.letter not in "GM"}
        # F and S are modal words: honoured on blocks that consist of the words alone,
        # on motion-family blocks (G0 G1 G28 G38.x G92) and, for S, on M3/M4 blocks.
        # On other M-codes (M0 S.., M104 S.., M106 S..) S has a command-specific meaning.
        family = ("G0", "G1", "G28", "G92", "G38.2", "G38.3", "G38.4", "G38.5")
        plain = all(c in family for c in codes)
        if "F" in args and plain:
            self.feed = args["F"]
        if "S" in args and (plain or all(c in family + ("M3", "M4") for c in codes)):
            self.power = args["S"]
        if "T" in args:
            pending_tool = args["T"]
        else:
            pending_tool = None
        for code in codes:
            if code in ("G0", "G1"):
                for a in "XYZ":
                    if a in args:
                        if self.relative:
                            if self.pos[a] is not UNKNOWN:
                                self.pos[a] = self.pos[a] + args[a]
                        else:
                            self.pos[a] = args[a]
                for k, v in args.items():
                    self.params[k] = v
                self.events.append(("move", code))
            elif code == "G90":
                self.relative = False
            elif code == "G91":
                self.relative = True
            elif code == "G92":
                for a in "XYZ":
                    if a in args:
                        self.pos[a] = args[a]
                for k, v in args.items():
                    self.params[k] = v
            elif code == "G28":
                axes = [a for a in "XYZ" if a in args] or list("XYZ")
                for a in axes:
                    self.pos[a] = UNKNOWN
                for k, v in args.items():
                    self.params[k] = v
            elif code in ("G38.2", "G38.3", "G38.4", "G38.5"):
                for a in "XYZ":
                    if a in args:
                        self.pos[a] = UNKNOWN
                for k, v in args.items():
                    self.params[k] = v
                self.events.append(("probe", code))
            elif code in ("M3", "M4"):
                self.events.append(("tool_start", (code, self.tool_on)))
                self.tool_on = True
                self.tool_code = code
            elif code == "M5":
                self.events.append(("tool_stop", code))
                self.tool_on = False
            elif code in ("M7", "M8"):
                self.events.append(("coolant_start", (code, self.coolant_on)))
                self.coolant_on = True
                self.coolant_code = code
            elif code == "M9":
                self.events.append(("coolant_stop", code))
                self.coolant_on = False
            elif code == "M6":
                self.events.append(("tool_change", (self.tool_on, self.coolant_on)))
                if pending_tool is not None:
                    self.tool_number = pending_tool
            elif code in ("M82", "M83"):
                self.extrusion_relative = code == "M83"
            elif code in ("G20", "G21"):
                self.units = code
            elif code in ("G17", "G18", "G19"):
                self.plane = code
            elif code in ("G93", "G94", "G95"):
                self.feed_mode = code
            if code in ("M104", "M109", "M140", "M190", "M141", "M191"):
                t = args.get("S", args.get("R"))
                if t is not None:
                    key = {"M104": "hotend", "M109": "hotend", "M140": "bed",
                           "M190": "bed", "M141": "chamber", "M191": "chamber"}[code]
                    self.temps[key] = t
            if code in HALT_CODES:
                self.events.append(("halt", (code, self.tool_on, self.coolant_on)))

    # -- helpers ---------------------------------------------------------
    def clone_state_from(self, pos, relative, tool_on=False, coolant_on=False):
        self.pos = dict(pos)
        self.relative = relative
        self.tool_on = tool_on
        self.coolant_on = coolant_on
        return self
