"""Verification framework for gscrib (see /verif/DESIGN.md).

The code under test is /repo's gscrib (installed in /venv in editable mode). For experiments
against a scratch worktree (seeded changes) set VF_REPO=<path>: that tree's gscrib is imported
instead; registered checks never set it.
"""
import os
import sys

_repo = os.environ.get("VF_REPO")
if _repo and _repo not in sys.path:
    sys.path.insert(0, _repo)
