"""numpy shims (DESIGN §3) so that symbolic values survive the two places
where gscrib's plain-Python core crosses into numpy's C code.

* formatter shim: ``gscrib.formatters.default_formatter.np``
    isfinite -> math.isfinite ; format_float_positional -> opaque token
    ``#k#`` recorded together with the (symbolic) value and keyword args.
* point shim: ``gscrib.geometry.point.np``
    array(list) -> PyVec, a pure-Python vector; ``ndarray @ PyVec`` is routed
    to PyVec.__rmatmul__ which multiplies by the real, concrete matrix.

Both are installed with ``installed()`` and removed afterwards; replay
scripts never use them.
"""

from __future__ import annotations

import math
from contextlib import contextmanager
from typing import Any, Dict, List, Tuple

import numpy as _real_np

import gscrib.formatters.default_formatter as _fmt_mod
import gscrib.geometry.point as _pt_mod


class TokenTable:
    """Numbers handed to numpy's formatter, by token."""

    def __init__(self) -> None:
        self.values: List[Tuple[Any, Dict[str, Any]]] = []

    def add(self, value, kw) -> str:
        self.values.append((value, kw))
        return f"#{len(self.values) - 1}#"

    def clear(self) -> None:
        self.values.clear()


TOKENS = TokenTable()


def _is_symbolic(x) -> bool:
    # under tracing type() reports the emulated Python type; look at the real one
    try:
        from crosshair.tracers import NoTracing, is_tracing
    except ImportError:  # concrete replays never see symbolics
        return False
    if not is_tracing():
        return type(x).__module__.startswith("crosshair")
    with NoTracing():
        return type(x).__module__.startswith("crosshair")


class _ScalarNp:
    """Pure-Python versions of the scalar numpy functions gscrib's plain-Python core could
    reasonably call on a coordinate, so that symbolic values survive them. Anything else falls
    through to the real numpy (CrossHair then realises the value at the C boundary, or numpy
    raises, which the harness reports as an exception it cannot replay)."""

    @staticmethod
    def isfinite(x):
        return math.isfinite(x)

    @staticmethod
    def isnan(x):
        return x != x

    @staticmethod
    def isinf(x):
        return x == math.inf or x == -math.inf

    @staticmethod
    def isclose(a, b, rtol=1e-05, atol=1e-08, equal_nan=False):
        if a != a or b != b:
            return bool(equal_nan and a != a and b != b)
        if a == b:
            return True
        if not (math.isfinite(a) and math.isfinite(b)):
            return False
        d = a - b
        if d < 0:
            d = -d
        mb = b if b >= 0 else -b
        return d <= atol + rtol * mb

    @classmethod
    def allclose(cls, a, b, rtol=1e-05, atol=1e-08, equal_nan=False):
        if isinstance(a, (list, tuple)) or isinstance(b, (list, tuple)):
            return all(cls.isclose(x, y, rtol, atol, equal_nan) for x, y in zip(a, b))
        return cls.isclose(a, b, rtol, atol, equal_nan)

    @staticmethod
    def abs(x):
        return x if x >= 0 else -x

    absolute = abs
    fabs = abs

    @staticmethod
    def sign(x):
        return 1.0 if x > 0 else (-1.0 if x < 0 else 0.0)

    @staticmethod
    def maximum(a, b):
        return a if a >= b else b

    @staticmethod
    def minimum(a, b):
        return a if a <= b else b

    @staticmethod
    def clip(x, lo, hi):
        return lo if x < lo else (hi if x > hi else x)

    @staticmethod
    def float64(x):
        return x

    @classmethod
    def round(cls, x, decimals=0):
        """Round half away from zero at `decimals` places (numpy rounds half to even; the
        difference is a measure-zero set of ties and irrelevant to what uses this)."""
        if hasattr(x, "items") and not isinstance(x, dict):
            x = x.items
        if isinstance(x, (list, tuple)):
            return type(x)(cls.round(v, decimals) for v in x)
        if not _is_symbolic(x):
            return _real_np.round(x, decimals)
        scale = 10 ** decimals
        y = x * scale
        n = int(y + 0.5) if y >= 0 else -int(-y + 0.5)
        return n / scale

    around = round

    def __getattr__(self, name):  # anything else: the real thing
        return getattr(_real_np, name)


class _FormatterNp(_ScalarNp):
    """Stand-in for the numpy module inside default_formatter."""

    @staticmethod
    def format_float_positional(x, **kw):
        return TOKENS.add(x, dict(kw))


class PyVec:
    """Pure-Python homogeneous vector; defers ndarray @ PyVec to us."""

    __array_ufunc__ = None

    def __init__(self, items):
        self.items = list(items)

    def __rmatmul__(self, matrix):
        rows = matrix.tolist()  # concrete python floats
        out = []
        for row in rows:
            acc = 0
            for m, v in zip(row, self.items):
                acc = acc + m * v
            out.append(acc)
        return PyVec(out)

    def __getitem__(self, idx):
        return self.items[idx]

    def __iter__(self):
        return iter(self.items)

    def __len__(self):
        return len(self.items)


class _PointNp(_ScalarNp):
    @staticmethod
    def array(items, *a, **kw):
        return PyVec(items)

    ndarray = _real_np.ndarray


class SymText:
    """Stand-in for bytes(line, "utf-8") in GCodeCore.write when the line is a symbolic str.
    Contract of the stubbed C call: UTF-8 encoding is injective, so the text is kept as is."""

    def __init__(self, text):
        self.text = text

    def decode(self, *_a):
        return self.text

    def __len__(self):
        return len(self.text)


def _core_bytes(*args):
    if len(args) == 2 and _is_symbolic(args[0]):
        return SymText(args[0])
    return bytes(*args)


import gscrib.gcode_core as _core_mod


@contextmanager
def installed():
    old_f, old_p = _fmt_mod.np, _pt_mod.np
    _fmt_mod.np = _FormatterNp()
    _pt_mod.np = _PointNp()
    _core_mod.bytes = _core_bytes
    TOKENS.clear()
    try:
        yield TOKENS
    finally:
        _fmt_mod.np, _pt_mod.np = old_f, old_p
        del _core_mod.bytes


def install_permanently() -> TokenTable:
    _fmt_mod.np = _FormatterNp()
    _pt_mod.np = _PointNp()
    _core_mod.bytes = _core_bytes
    return TOKENS
