"""CrossHair driver: symbolic exploration of one harness ("cell").

A harness is a plain Python function with annotated parameters. CrossHair
creates symbolic values for the parameters, runs the harness (and the real
gscrib code it calls) under its tracer, and z3 decides every branch. The
harness returns ``None`` when the property held on that path, or a string
describing the violation. ``assume(cond)`` prunes paths.

Verdicts per cell:
  confirmed       every path was explored and none returned a violation and
                  no path was cut short by a solver 'unknown'/timeout
  counterexample  a path returned a violation; concrete argument values are
                  realised from the z3 model (to be replayed by the caller)
  inconclusive    budget ran out, or some path was unknown
"""

from __future__ import annotations

import inspect
import sys
import time
from dataclasses import dataclass, field
from typing import Any, Callable, Dict, Optional

import z3

from crosshair.core import (
    COMPOSITE_TRACER,
    ExceptionFilter,
    NoTracing,
    Patched,
    ResumedTracing,
    deep_realize,
    gen_args,
)
from crosshair.copyext import CopyMode, deepcopyext
from crosshair.libimpl import builtinslib
from crosshair.statespace import (
    CallAnalysis,
    NotDeterministic,
    RootNode,
    StateSpace,
    StateSpaceContext,
    VerificationStatus,
)
from crosshair.util import IgnoreAttempt, UnexploredPath
import crosshair.core_and_libs  # noqa: F401  (registers library patches)


# -- float model: reals plus the three concrete non-finite values ----------
# (DESIGN §2: the IEEE-precise model makes z3 time out; IEEE rounding is
# outside every claim.)
builtinslib._PYTYPE_TO_WRAPPER_TYPE[float] = (
    (builtinslib.RealBasedSymbolicFloat, 1.0),
)


# -- formatting stub --------------------------------------------------------
# gscrib formats numbers into text in two places: the G-code formatter (which
# goes through the numpy shim) and f-strings of exception messages. The second
# would realise the symbolic value and turn every error path into an unbounded
# enumeration of concrete values, so under tracing format(symbolic float) gives
# a placeholder. Harness diagnostics are formatted with FMT.real = True.
from crosshair import core as _ch_core


class FMT:
    real = False


_orig_format_patch = _ch_core._PATCH_REGISTRATIONS[format]


def _stub_format(obj, format_spec=""):
    if not FMT.real:
        with NoTracing():
            is_sym = _has_sym_float(obj)
        if is_sym:
            return "<float>"
    return _orig_format_patch(obj, format_spec)


def _has_sym_float(obj, depth=3) -> bool:
    if isinstance(obj, builtinslib.SymbolicFloat):
        return True
    if depth and isinstance(obj, (tuple, list)):
        return any(_has_sym_float(x, depth - 1) for x in obj)
    if depth and isinstance(obj, dict):
        return any(_has_sym_float(x, depth - 1) for x in obj.values())
    return False


_ch_core._PATCH_REGISTRATIONS[format] = _stub_format

_orig_float_repr = builtinslib.SymbolicFloat.__repr__


def _stub_float_repr(self):
    # repr() reached from C code (e.g. the repr of a Point inside an error message)
    if not FMT.real:
        return "<float>"
    return _orig_float_repr(self)


builtinslib.SymbolicFloat.__repr__ = _stub_float_repr


# -- int(symbolic float) ------------------------------------------------------
# CrossHair realises a symbolic float before truncating it, which enumerates
# concrete values without end. Truncation toward zero is expressible in linear
# mixed integer/real arithmetic, so keep it symbolic.
_orig_int_patch = _ch_core._PATCH_REGISTRATIONS[int]


def _symbolic_int(*args, **kw):
    with NoTracing():
        if not any(type(a).__module__.startswith("crosshair") for a in args):
            return int(*args, **kw)  # concrete: the real builtin
        if len(args) == 1 and not kw:
            val = args[0]
            if isinstance(val, builtinslib.RealBasedSymbolicFloat):
                from crosshair.statespace import context_statespace
                space = context_statespace()
                n = z3.Int("trunc" + space.uniq())
                x = val.var
                nr = z3.ToReal(n)
                space.add(z3.If(x >= 0, z3.And(nr <= x, x < nr + 1), z3.And(nr >= x, x > nr - 1)))
                return builtinslib.SymbolicInt(n, int)
    return _orig_int_patch(*args, **kw)


_ch_core._PATCH_REGISTRATIONS[int] = _symbolic_int


class _SolverStats:
    calls = 0
    seconds = 0.0
    unknown = 0


_orig_check = z3.Solver.check


def _counting_check(self, *a, **kw):
    t0 = time.perf_counter()
    try:
        r = _orig_check(self, *a, **kw)
    finally:
        _SolverStats.seconds += time.perf_counter() - t0
        _SolverStats.calls += 1
    if r == z3.unknown:
        _SolverStats.unknown += 1
    return r


z3.Solver.check = _counting_check


class Finite(float):
    """Annotation: a finite float (a real); no NaN/inf case split."""


class FixedBytes:
    """Annotation: a bytes value of exactly n symbolic bytes."""

    def __init__(self, n: int):
        self.n = n


class FixedStr:
    """Annotation: a str of exactly n symbolic code points."""

    def __init__(self, n: int):
        self.n = n


def make_args(sig: inspect.Signature):
    from crosshair.core import proxy_for_type
    from crosshair.statespace import context_statespace
    space = context_statespace()
    ba = sig.bind_partial()
    for name, param in sig.parameters.items():
        smt_name = name + space.uniq()
        ann = param.annotation
        # Symbolics are created directly (not through CrossHair's
        # make_concrete_or_symbolic wrapper, which spends iterations on
        # prematurely realised copies of the same argument).
        if ann is Finite:
            value = builtinslib.RealBasedSymbolicFloat(smt_name, float)
        elif ann is float:
            value = builtinslib.make_float(smt_name, float)
        elif ann is bool:
            value = builtinslib.SymbolicBool(smt_name, bool)
        elif ann is int:
            value = builtinslib.SymbolicBoundedInt(smt_name, int)
        elif ann is str:
            value = builtinslib.LazyIntSymbolicStr(smt_name, str)
        elif isinstance(ann, FixedBytes):
            value = builtinslib.SymbolicBytes(
                [builtinslib.SymbolicBoundedInt(f"{smt_name}_{i}", int, 0, 255)
                 for i in range(ann.n)])
        elif isinstance(ann, FixedStr):
            value = builtinslib.LazyIntSymbolicStr(
                [builtinslib.SymbolicBoundedInt(f"{smt_name}_{i}", int, 0, 0x10FFFF)
                 for i in range(ann.n)])
        else:
            value = proxy_for_type(ann, smt_name, allow_subtypes=False)
        ba.arguments[name] = value
    return ba


def assume(cond) -> None:
    """Prune the current path unless cond holds (forks when symbolic)."""
    if not cond:
        raise IgnoreAttempt("assumption failed")


@dataclass
class CellResult:
    name: str
    verdict: str  # confirmed | counterexample | inconclusive | harness_error
    paths: int = 0
    confirmed_paths: int = 0
    ignored_paths: int = 0
    unknown_paths: int = 0
    solver_calls: int = 0
    solver_s: float = 0.0
    solver_unknown: int = 0
    wall_s: float = 0.0
    detail: str = ""
    counterexample: Optional[Dict[str, Any]] = None
    reason: str = ""
    kind: str = ""
    tags: set = field(default_factory=set)
    known_hits: Dict[str, Any] = field(default_factory=dict)
    meta: Dict[str, Any] = field(default_factory=dict)

    def to_json(self) -> Dict[str, Any]:
        d = dict(self.__dict__)
        d["solver_s"] = round(self.solver_s, 3)
        d["wall_s"] = round(self.wall_s, 3)
        if self.counterexample is not None:
            d["counterexample"] = {k: repr(v) for k, v in self.counterexample.items()}
        d["tags"] = sorted(self.tags)
        d["known_hits"] = {
            k: {"args": {a: repr(b) for a, b in v["args"].items()},
                "detail": v["detail"], "count": v["count"]}
            for k, v in self.known_hits.items()
        }
        return d


def explore(
    fn: Callable,
    name: str = "",
    budget_s: float = 60.0,
    per_path_s: float = 10.0,
    max_paths: int = 100000,
    known_kinds=frozenset(),
) -> CellResult:
    """Explore all paths of `fn` over symbolic arguments.

    A harness returns None (property held on this path) or a ``mode.V``.
    Violations whose kind is in ``known_kinds`` (committed known findings) are
    recorded (first concrete witness per kind) and exploration continues, so
    that a different violation in the same cell is still found.
    """
    from .mode import V, take_tags
    take_tags()
    sig = inspect.signature(fn, eval_str=True)
    res = CellResult(name=name or fn.__name__, verdict="inconclusive")
    c0, s0, u0 = _SolverStats.calls, _SolverStats.seconds, _SolverStats.unknown
    t_start = time.perf_counter()
    p_start = time.process_time()
    search_root = RootNode()
    exhausted = False
    with Patched():
        for i in range(1, max_paths + 1):
            itr_start = time.process_time()
            if time.perf_counter() - t_start > budget_s:
                res.reason = f"budget {budget_s}s exhausted after {i - 1} paths"
                break
            space = StateSpace(
                execution_deadline=itr_start + per_path_s,
                model_check_timeout=per_path_s / 2,
                search_root=search_root,
            )
            status: Optional[VerificationStatus]
            violation = None
            with COMPOSITE_TRACER, NoTracing(), StateSpaceContext(space):
                try:
                    pre_args = make_args(sig)
                    args = deepcopyext(pre_args, CopyMode.REGULAR, {})
                    ret = None
                    take_tags()
                    with ExceptionFilter() as efilter, ResumedTracing():
                        ret = fn(*args.args, **args.kwargs)
                    if efilter.ignore:
                        raise IgnoreAttempt("assumption failed")
                    if efilter.user_exc:
                        exc, stack = efilter.user_exc
                        if isinstance(exc, NotDeterministic):
                            raise exc
                        # An exception escaping the harness is a harness bug
                        with ResumedTracing():
                            conc = deep_realize(dict(pre_args.arguments))
                        violation = (
                            "HARNESS-ERROR",
                            f"{type(exc).__name__}: {exc}\n{''.join(stack.format()) if stack else ''}",
                            conc,
                        )
                    elif ret is not None:
                        kind = str(ret.kind)
                        if kind in known_kinds and kind in res.known_hits:
                            res.known_hits[kind]["count"] += 1
                        else:
                            FMT.real = True
                            try:
                                with ResumedTracing():
                                    d = ret.detail() if callable(ret.detail) else ret.detail
                                    detail = str(deep_realize(d))
                                    conc = deep_realize(dict(pre_args.arguments))
                            finally:
                                FMT.real = False
                            if kind in known_kinds:
                                res.known_hits[kind] = {"args": conc, "detail": detail, "count": 1}
                            else:
                                violation = ("VIOLATION", f"{kind}: {detail}", conc)
                                res.kind = kind
                    res.tags |= take_tags()
                    status = VerificationStatus.CONFIRMED
                except IgnoreAttempt:
                    status = None
                    res.ignored_paths += 1
                except UnexploredPath:
                    status = VerificationStatus.UNKNOWN
                    res.unknown_paths += 1
                except NotDeterministic as e:
                    res.verdict = "harness_error"
                    res.detail = f"NotDeterministic: {e}"
                    res.paths = i
                    break
                if status == VerificationStatus.CONFIRMED:
                    res.confirmed_paths += 1
                _analysis, exhausted = space.bubble_status(CallAnalysis(status))
            res.paths = i
            if violation is not None:
                kind, detail, conc = violation
                res.verdict = (
                    "counterexample" if kind == "VIOLATION" else "harness_error"
                )
                res.detail = detail
                res.counterexample = conc
                break
            if exhausted:
                break
    if res.verdict == "inconclusive" and exhausted:
        if res.unknown_paths == 0 and res.confirmed_paths > 0:
            res.verdict = "confirmed"
        elif res.unknown_paths:
            res.reason = f"{res.unknown_paths} path(s) ended in solver unknown/timeout"
        else:
            res.reason = "no path satisfied the assumptions (vacuous)"
    res.solver_calls = _SolverStats.calls - c0
    res.solver_s = _SolverStats.seconds - s0
    res.solver_unknown = _SolverStats.unknown - u0
    res.wall_s = time.perf_counter() - t_start
    return res
