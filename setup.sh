#!/bin/sh
# Build the overlay venv (CrossHair + z3 from the offline wheelhouse on top of /venv). Idempotent.
set -e
cd "$(dirname "$0")"
exec 9>.venv.lock
flock 9
if [ ! -x .venv/bin/python ] || ! .venv/bin/python -c "import crosshair, z3, gscrib" 2>/dev/null; then
  rm -rf .venv
  /venv/bin/python -m venv .venv
  echo "import site; site.addsitedir('/venv/lib/python3.12/site-packages')" > .venv/lib/python3.12/site-packages/_overlay.pth
  PIP_NO_INDEX=1 .venv/bin/pip install -q --no-index --find-links /opt/veriftools/wheels crosshair-tool
fi
.venv/bin/python -c "import crosshair, z3, gscrib; print('venv ok', crosshair.__version__)"
