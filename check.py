#!/usr/bin/env python
"""check.py <PROPERTY-ID> [--tier quick|thorough] [--only substr] [--jobs N]"""
import argparse
import os
import sys

sys.path.insert(0, os.path.dirname(os.path.abspath(__file__)))


def main():
    ap = argparse.ArgumentParser()
    ap.add_argument("prop")
    ap.add_argument("--tier", default=os.environ.get("VERIF_TIER") or "quick")
    ap.add_argument("--only", default=None)
    ap.add_argument("--jobs", type=int, default=16)
    a = ap.parse_args()
    if a.tier not in ("quick", "thorough"):
        a.tier = "quick"
    from vf.runner import run_property
    sys.exit(run_property(a.prop, a.tier, a.jobs, a.only))


if __name__ == "__main__":
    main()
