#!/usr/bin/env python3
"""Print the markdown table of kept seeded changes from seeded/*/meta.json."""
import glob, json, os, re
rows = []
for d in sorted(glob.glob("/verif/seeded/*/"), key=lambda p: (re.sub(r"-\d+/$", "", p), int(re.search(r"-(\d+)/$", p).group(1)))):
    m = json.load(open(d + "meta.json"))
    name = os.path.basename(d.rstrip("/"))
    needs = m["needs_to_manifest"].replace("|", "/")
    rows.append(f"| {name} | {m['breaks_property']} | {', '.join(m['caught_by'])} | {needs} |")
print("| Seed | Breaks | Caught by | What it needs to manifest (and notes) |\n|---|---|---|---|")
print("\n".join(rows))
