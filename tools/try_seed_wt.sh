#!/bin/bash
# try_seed_wt.sh <patch.diff> <tier> <PROP>... : like try_seed.sh, but applies the change in a scratch
# worktree and points the checks at it with VF_REPO, so /repo is never touched (safe while other
# runs are using /repo). Results go to /tmp/tryw_<tag>_<PROP>.log
set -u
P=$1; TIER=$2; shift 2
TAG=$(echo "$P" | tr '/.' '__')
WT=/tmp/wt/try_$$
git -C /repo worktree add --detach $WT HEAD -q || exit 9
( cd $WT && { git apply $P 2>/dev/null || git apply -3 $P; } ) || { echo PATCH-FAILED; git -C /repo worktree remove --force $WT; exit 8; }
cd /verif
for prop in "$@"; do
  VF_REPO=$WT ./.venv/bin/python -O check.py $prop --tier $TIER > /tmp/tryw_${TAG}_$prop.log 2>&1; rc=$?
  echo "== $prop rc=$rc: $(grep -c '^VIOLATION' /tmp/tryw_${TAG}_$prop.log) violation line(s), $(grep -c '^HARNESS-ERROR' /tmp/tryw_${TAG}_$prop.log) harness error(s)"
  grep -A1 '^VIOLATION\|^HARNESS' /tmp/tryw_${TAG}_$prop.log | cut -c1-300 | head -6
  tail -1 /tmp/tryw_${TAG}_$prop.log
done
git -C /repo worktree remove --force $WT
