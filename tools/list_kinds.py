#!/usr/bin/env python3
"""list_kinds.py <PROP>: violation kinds (new and known) seen in the last evidence file."""
import collections, json, sys
ev = json.load(open(f"/verif/evidence/{sys.argv[1]}.json"))
new = collections.Counter(); known = collections.Counter(); detail = {}
for c in ev["coverage"]["cells"]:
    if c["verdict"] == "counterexample":
        new[c["kind"]] += 1; detail.setdefault(c["kind"], c["detail"])
    for k, v in c.get("known_hits", {}).items():
        known[k] += 1; detail.setdefault(k, v["detail"])
for k, v in sorted(new.items()):
    print("NEW  ", v, k, "::", detail[k][:230])
for k, v in sorted(known.items()):
    print("KNOWN", v, k)
