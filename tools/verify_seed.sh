#!/bin/bash
# verify_seed.sh <dir-with-patchN.diff/demoN.py> <N> : confirm, in a scratch worktree of /repo HEAD,
# that the change applies, the test suite still passes, and the demo fails with / passes without it.
set -u
D=$1; N=$2
WT=/tmp/wt/verify_$$
git -C /repo worktree add --detach $WT HEAD -q || exit 9
cd $WT
echo "== demo without change"; PYTHONPATH=$WT timeout 300 /venv/bin/python $D/demo$N.py > /tmp/verify_demo_clean.log 2>&1; echo "exit=$?"
if ! git apply --check $D/patch$N.diff 2>/dev/null; then
  echo "patch does not apply cleanly; trying 3-way"; git apply -3 $D/patch$N.diff || { echo "PATCH-FAILED"; cd /; git -C /repo worktree remove --force $WT; exit 8; }
else git apply $D/patch$N.diff; fi
echo "== test suite with change"; timeout 900 /venv/bin/python -m pytest -q -p no:cacheprovider -x --deselect tests/test_file_writer.py::test_write_to_invalid_path 2>&1 | tail -2
echo "== demo with change"; PYTHONPATH=$WT timeout 300 /venv/bin/python $D/demo$N.py > /tmp/verify_demo_mut.log 2>&1; echo "exit=$?"; tail -3 /tmp/verify_demo_mut.log
git diff > /tmp/verify_rebased.diff
cd /; git -C /repo worktree remove --force $WT
