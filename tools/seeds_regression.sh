#!/bin/bash
# Re-run every kept seeded change against the checks listed in its meta.json (scratch worktree,
# /repo untouched). Output: one line per seed and check.
cd "$(dirname "$0")/.."
for d in seeded/*/; do
  name=$(basename $d)
  props=$(python3 -c "import json; print(' '.join(json.load(open('$d/meta.json'))['caught_by']))")
  res=$(tools/try_seed_wt.sh /verif/$d/patch.diff quick $props 2>&1 | grep -E "^== |PATCH" | tr '\n' ' ')
  echo "$name :: $res"
done
