#!/bin/bash
# try_seed.sh <patch.diff> <tier> <PROP>... : apply a seeded change to /repo, run the checks, revert.
set -u
P=$1; TIER=$2; shift 2
cd /repo && git diff --quiet || { echo "/repo dirty"; exit 9; }
git apply $P 2>/dev/null || git apply -3 $P || { echo PATCH-FAILED; git -C /repo reset -q --hard HEAD; exit 8; }
git diff --stat | tail -1
cd /verif
for prop in "$@"; do
  ./run.sh $prop $TIER > /tmp/try_$prop.log 2>&1; rc=$?
  echo "== $prop rc=$rc: $(grep -c '^VIOLATION' /tmp/try_$prop.log) violation line(s), $(grep -c '^HARNESS-ERROR' /tmp/try_$prop.log) harness error(s)"
  grep -A1 '^VIOLATION\|^HARNESS' /tmp/try_$prop.log | cut -c1-260 | head -8
  tail -1 /tmp/try_$prop.log
done
git -C /repo reset -q --hard HEAD; git -C /repo status --short | head -3
