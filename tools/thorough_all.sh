#!/bin/bash
# Run every claimed check at the thorough tier, one after the other; print a timing summary.
cd "$(dirname "$0")/.."
./setup.sh
for p in $(python3 -c "import json; print(' '.join(c['property_id'] for c in json.load(open('MANIFEST.json'))['checks']))"); do
  s=$(date +%s)
  ./run.sh $p thorough > /tmp/thorough_$p.log 2>&1; rc=$?
  e=$(date +%s)
  echo "$p rc=$rc secs=$((e-s)) :: $(tail -1 /tmp/thorough_$p.log)"
done
