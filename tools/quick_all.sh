#!/bin/bash
# Run every claimed check at the quick tier (regenerates /verif/evidence/*.json); print timings.
cd "$(dirname "$0")/.."
./setup.sh >/dev/null
for p in $(python3 -c "import json; print(' '.join(c['property_id'] for c in json.load(open('MANIFEST.json'))['checks']))"); do
  s=$(date +%s); ./run.sh $p quick > /tmp/quick_$p.log 2>&1; rc=$?; e=$(date +%s)
  echo "$p rc=$rc secs=$((e-s)) :: $(tail -1 /tmp/quick_$p.log)"
done
