#!/usr/bin/env python3
"""Regenerate MANIFEST.json from the table below (run from /verif)."""
import json
import os

ROOT = os.path.dirname(os.path.dirname(os.path.abspath(__file__)))

TECH = "bounded symbolic execution of the real code (CrossHair + z3), per-cell path exhaustion"

CLAIMS = {
    "C01": dict(
        text="Inductive step of the position invariant I1 decided by z3 over all finite coordinates "
             "for every motion entry point, distance mode, None-pattern and mode context; holds for "
             "histories of any length under the stated invariant. Interpolated paths only through "
             "a syntactic frame condition on the tracer.",
        note="floats as reals (IEEE rounding outside the claim); identity transform; numpy "
             "formatting stubbed by contract; tracer frame condition is an AST scan, not a proof",
        ref="§4 C01"),
    "C02": dict(
        text="Inductive step of the interlock invariant I2 for 99 call shapes from every "
             "(tool, coolant) state, all numeric arguments incl. NaN/inf decided by z3; emitted "
             "M-codes judged by an independent interpreter; rejections must match documented "
             "conditions.",
        note="no bounds/hooks configured; argument-validation rules as documented; well-typed calls",
        ref="§4 C02"),
    "C03": dict(
        text="One call with all seven bounds symbolic (any min<max): z3 shows every emitted F/S/T/"
             "temperature word and every G0/G1/G92/G38 target is inside its range for all "
             "arguments incl. NaN/inf, both modes, known/unknown axis, and parameter-rewriting "
             "hooks. Interpolated segments via the tracer frame condition.",
        note="G28 words excluded (endstop-relative); identity transform; floats as reals",
        ref="§4 C03"),
    "C05": dict(
        text="One call from an arbitrary state: on every raising path z3 must show nothing was "
             "written and the full public snapshot is unchanged (pre-states: idle/running machine, G90/G91, "
             "pause pending, position inside or outside the axes box; installed directly and reached "
             "through public calls). Known atomicity defects would be listed in KNOWN_FINDINGS.txt by "
             "exact kind (none at present); anything else is a violation.",
        note="pre-state values finite; axes box and tool-number range concrete; floats as reals",
        ref="§4 C05"),
    "C17": dict(
        text="Inductive step for the read-buffer invariant: one readline() from an arbitrary buffer and "
             "a scripted socket of up to 3 reads (data chunks of 1-4 or 256 bytes, timeouts with either "
             "select answer, end-of-stream); z3 decides over all byte contents that returned line + "
             "remaining buffer = bytes received in order, lines are cut after exactly one newline, the "
             "tail is delivered once at end-of-stream.",
        note="socket file and selector are scripted stubs; chunk sizes 5..255 only by induction; "
             "OSError paths not explored",
        ref="§4 C17"),
    "C09": dict(
        text="For 8 comment styles x 12 text-accepting entry points, z3 decides over every code point "
             "of a text of 1-3 characters that an independent lexer sees the same executable words and "
             "line count as with the text \"x\" (line breaks, delimiters, G-code-looking payloads and "
             "non-ASCII are all inside the symbolic alphabet).",
        note="texts longer than 3 code points outside the claim; utf-8 encode stubbed as injective; "
             "annotate keys ASCII only; the \"{\" style is not covered",
        ref="§4 C09"),
    "C13": dict(
        text="Enumerated operation histories (length <= 2 full alphabet, 3-4 core alphabet) run on the "
             "real transformer and an independent stack-of-matrices model; after each sequence z3 shows "
             "for ALL probe points in [-1000,1000]^3 that apply() equals the model and reverse(apply(p)) "
             "= p; matrices, pivot, stack depth, exceptions compared concretely after every operation.",
        note="history dimension enumerated with concrete parameters (matrices are numpy); the "
             "solver quantifies only over the probe point; Point.to_vector shimmed",
        ref="§4 C13"),
    "C04": dict(
        text="For an enumerated family of transforms (single operations with/without pivot and "
             "compositions, built through the real API) z3 shows for ALL tracked positions and arguments "
             "in [-1000,1000] that after move/rapid/probe the interpreted machine position equals the "
             "independently composed matrix applied to the independently computed target (both modes, "
             "partial axes), i.e. words are the (linear) image and every axis that must change is emitted.",
        note="transform dimension enumerated with concrete parameters; tolerance 1e-6; all axes "
             "known in the pre-state; floats as reals",
        ref="§4 C04"),
    "C20": dict(
        text="Recording hooks: for every linear/rapid entry, mode, None-pattern and argument pattern z3 "
             "shows for all coordinates that each hook is called once per linear move with origin = "
             "resolved position and target = independently computed absolute target, never for rapids, "
             "and that the parameters of the last hook are emitted and remembered. Bundled extrusion "
             "hook: hypot stubbed to a symbolic length; E equals ratio x length (M83) or previous E + "
             "that (M82) in every distance/extrusion mode combination.",
        note="math.hypot stubbed by contract; geometry triples concrete (keeps E linear); "
             "interpolated segments only via the tracer frame condition",
        ref="§4 C20"),
    "C15": dict(
        text="Single-threaded co-simulation of the real startprint/_sendnext/_send/_listen code with a "
             "Marlin-style firmware model: z3 explores every corruption pattern of the first K "
             "transmissions and shows frames are N<k> <cmd>*<xor>, numbering restarts after M110, a "
             "resend request is followed by exactly the requested line and the firmware accepts every "
             "non-comment line once, in order. Framing with symbolic command text; _checksum translated "
             "from its AST to z3 bit-vectors and proved to be the XOR of all bytes for 1..8(12) bytes.",
        note="ONE schedule (sender and reader strictly alternate, threads stubbed): delivery under "
             "real thread schedules/latencies is not claimed; job text concrete; M110 frame never corrupted",
        ref="§4 C15"),
    "C08": dict(
        text="Structure of every emitted line for 24 call shapes x formatter configurations: z3 decides "
             "over all numeric arguments (reals, NaN, inf, ints) that output is whole lines with exactly "
             "the configured terminator, at most one trailing comment, address words only, every number "
             "either 0 (only when |value| <= half a unit) or produced by the one sanctioned numpy call "
             "with precision == decimal places on exactly the requested value; non-finite -> ValueError "
             "and nothing written. numpy scalar types as enumerated concrete values.",
        note="NOT decided: numpy C formatting (half-unit rounding, no exponent) - stubbed contract; "
             "IEEE rounding outside the claim",
        ref="§4 C08"),
    "C10": dict(
        text="ONLY the plain-Python geometry handed to the sampler: z3 shows for all start/target/centre/"
             "pitch values that thread() hands helix() a centre equidistant from start and target and "
             "max(1, floor(|dz|/pitch)) turns, circle() hands arc() a target equal to the start, spiral() "
             "the start as centre, arc/helix compute centre = start + offset and an absolute target, "
             "polyline visits exactly the given points; Direction.enforce keeps sign and end point.",
        note="vertices, radius along the path, sweep, monotonicity, Z linearity, spline proximity "
             "are NOT examined (numpy/scipy sampling is outside the technique); sampler entry points "
             "are replaced by recorders",
        ref="§4 C10"),
    "C11": dict(
        text="Two builders (absolute / relative) receive the same logical toolpath from the same "
             "symbolic start: z3 shows equal interpreted machine positions for move/rapid/bypass moves/"
             "mode contexts (1-2 waypoints), and identical absolute pre-sampling geometry for arc, "
             "helix, arc_radius (chord), circle, thread, spiral, spline control points, polyline vertices.",
        note="sampled vertices are not compared (numpy/scipy); relies on the tracer frame condition "
             "(AST scan) that the sampler depends only on the captured geometry",
        ref="§4 C11"),
    "C12": dict(
        text="In ARC-LENGTH terms for constant-speed curves: the real parametric() sample-count arithmetic "
             "and the real _filter_segments() loop run on a stub curve with symbolic path length L; z3 "
             "shows for every L (N=2..40 oversampled points, three resolutions, both modes) that the "
             "path ends exactly at L, vertices advance, no segment exceeds 1.12 resolution units and "
             "every inner segment is at least 0.9; halving the resolution never gives fewer segments; "
             "a units switch rescales the resolution by 25.4 and round-trips.",
        note="numpy array primitives of the filter replaced by list versions; chord lengths of "
             "curved shapes, the chord-error bound and non-constant-speed shapes are NOT decided",
        ref="§4 C12"),
    "C14": dict(
        text="Writer bookkeeping and FileWriter logic: enumerated histories (add/remove/duplicate add/emit/"
             "flush/teardown over custom writers and FileWriters on text and binary stream stubs, "
             "length <= 3/4) with symbolic comment text; z3 shows every writer received exactly the "
             "lines emitted while registered, once, in order, same content, right type per stream, "
             "flush forwarded, teardown disconnects everything without closing caller-supplied "
             "streams. Path-based files only as two concrete cells.",
        note="io objects are pure-Python stubs: real files, buffering and the file system are outside "
             "the technique (only two concrete cells touch a real file); UTF-8 encoding stubbed as "
             "injective, so 'same bytes' is decided as 'same text'",
        ref="§4 C14"),
    "C19": dict(
        text="ONLY the plain-Python logic around the compiled interpolators: z3 shows for all heights and "
             "tolerances (2..6 samples) that the path filter of both map types keeps the first and last "
             "sample, returns an in-order subsequence, drops only samples closer than the tolerance to "
             "the previously kept height and keeps inner samples only when at least the tolerance "
             "away; sample_path = filter(interpolated line, tolerance); raster lookups return 0 "
             "outside [0,w)x[0,h) and scale x interpolator(row=y, column=x) inside; sparse lookups "
             "scale x interpolator(x, y); setters validate.",
        note="NOT decided: spline/Delaunay interpolation (exactness at samples, min/max bound, hull), "
             "line rasterisation, image loading - compiled code, stubbed by recording callables",
        ref="§4 C19"),
    "C18": dict(
        text="Dispatch and first-occurrence rule: 9 report templates of the four families are tokenised by "
             "the REAL regex (rendered with sample decimals); every numeric field is then a symbolic real "
             "and the real _on_device_message/_parse_message/_update_param run: z3 shows for all values "
             "that each reported letter gets the value that appears first, unmentioned letters keep "
             "earlier readings, look-ups are case-insensitive, ok/error lines acknowledge / store a "
             "DeviceError and plain reports do neither; also for two reports in a row.",
        note="NOT decided: the regex and float() on arbitrary digit strings (signs, exponents, "
             "malformed numbers) - digits are abstracted, float() of a field shimmed; templates "
             "are a finite enumeration",
        ref="§4 C18"),
    "C16": dict(
        text="NOT real thread schedules: the real write()/_send_statement/_wait_for_acknowledgment/"
             "_abort_on_device_error/_on_device_message run against a recording printcore stub; the "
             "reader thread is a scripted source of device lines delivered either inside send() or when "
             "write() blocks in Event.wait(); z3 explores every assignment of delivery points (2^n) for "
             "2-3 statements x 8 reply scripts and shows: statements reach the device once, in order, "
             "unmodified; write() returns only after the line acknowledging that statement, is never "
             "released by a status line and never blocks although the acknowledgement arrived; error/"
             "alarm/!!/printrun errors surface as DeviceError; readings reported before or on the "
             "acknowledging line are available when write() returns. connect(): the stub plays printcore's "
             "start-up handshake (two M110 N-1, the second not waited for); the delivery point of the ok "
             "still owed is a solver variable; then 1-2 statements. disconnect(wait): polling loop with "
             "the sleep as the point where sender/reader progress.",
        note="a sequentialised model of the reader with TWO-THREE yield points; pre-emption elsewhere, "
             "latency and the real printcore threads are NOT decided (the handshake behaviour of the stub "
             "is read from printcore.py and stated as an assumption)",
        ref="§4 C16"),
    "C07": dict(
        text="Inductive step of I7: after any of 99 call shapes from an arbitrary consistent state "
             "(symbolic feed, power, temperatures, E parameter, tool number) every state property "
             "the emitted program determines equals what an independent modal interpreter derives; "
             "z3 decides it for all arguments incl. NaN/inf, also after rejected calls.",
        note="fields never mentioned by the program are not compared; tool power compared only "
             "while the tool runs; X/Y/Z remembered arguments not compared; floats as reals",
        ref="§4 C07"),
    "C06": dict(
        text="Shutdown calls from every tool/coolant state under symbolic tool-power bounds "
             "(incl. ranges excluding 0): never raise, emit exactly M05 / M09 / M05,M09,comment,"
             "M00|M30, leave flags false.",
        note="pre-state power finite >= 0; emergency message fixed text (C09 covers text)",
        ref="§4 C06"),
}

NOT_APPLICABLE = {
}


def main():
    claimed = sorted(p for p in CLAIMS if os.path.exists(os.path.join(ROOT, "vf", "props", p.lower() + ".py")))
    all_ids = [json.loads(l)["id"] for l in open(os.path.join(ROOT, "properties.jsonl"))]
    checks = []
    for pid in claimed:
        c = CLAIMS[pid]
        checks.append({
            "property_id": pid,
            "quick_cmd": f"./run.sh {pid} quick",
            "thorough_cmd": f"./run.sh {pid} thorough",
            "evidence_file": f"/verif/evidence/{pid}.json",
            "replay_cmd_template": "/verif/.venv/bin/python {path}",
            "engine": "crosshair-z3",
            "level_claimed": {"category": "other", "text": c["text"], "design_ref": c["ref"]},
            "level_note": c["note"],
            "technique": TECH,
        })
    na = []
    for pid in all_ids:
        if pid in claimed:
            continue
        reason = NOT_APPLICABLE.get(pid, "check not built yet (planned, see DESIGN.md §4)")
        na.append({"property_id": pid, "reason": reason})
    manifest = {
        "version": 1,
        "setup_cmd": "./setup.sh",
        "hooks": {
            "guard": "GSCRIB_VERIF",
            "enable": "no source hooks are needed: checks import /repo's gscrib directly and "
                      "install numpy shims at run time inside the checking process only",
            "baseline_off_cmd": "cd /repo && /venv/bin/python -m pytest -ra -q -p no:cacheprovider "
                                "--timeout=900 --continue-on-collection-errors",
            "source_commits": [],
            "add_only": True,
        },
        "engines": [{
            "name": "crosshair-z3",
            "path": "/verif/vf/driver.py",
            "serves_properties": claimed,
            "kind_free_text": "CrossHair 0.0.110 symbolic execution of the real Python code, z3 back "
                              "end, driven through our own path-exploration loop (vf/driver.py)",
        }],
        "checks": checks,
        "not_applicable": na,
        "notes": "Exit codes: 0 held / 1 VIOLATION (replayed against the real code) / 3 harness error "
                 "(counterexample that does not reproduce, vacuous cell, shim validation failure). "
                 "Known findings: KNOWN_FINDINGS.txt.",
    }
    with open(os.path.join(ROOT, "MANIFEST.json"), "w") as f:
        json.dump(manifest, f, indent=1)
    print("claimed:", claimed)
    print("not_applicable:", [x["property_id"] for x in na])


if __name__ == "__main__":
    main()
