#!/usr/bin/env python3
"""keep_seed.py <name> <srcdir> <n> <property> <caught_by(comma)> <needs...>
Copies patch<n>.diff / demo<n>.py / notes<n>.md into /verif/seeded/<name>/ with a meta.json."""
import json, os, shutil, sys
name, src, n, prop, caught = sys.argv[1:6]
needs = " ".join(sys.argv[6:])
dst = f"/verif/seeded/{name}"
os.makedirs(dst, exist_ok=True)
shutil.copy(f"{src}/patch{n}.diff", f"{dst}/patch.diff")
shutil.copy(f"{src}/demo{n}.py", f"{dst}/demo.py")
if os.path.exists(f"{src}/notes{n}.md"):
    shutil.copy(f"{src}/notes{n}.md", f"{dst}/notes.md")
meta = {
    "breaks_property": prop,
    "needs_to_manifest": needs,
    "origin": "written by an independent sub-agent given only the property text and a scratch worktree"
              + ("; re-applied by hand onto the repaired tree (same mutation, context changed by the fix: commits)" if "ported" in src else ""),
    "confirmed": {
        "how": "tools/verify_seed.sh: scratch worktree of /repo HEAD; demo exits 0 without the change; "
               "change applied; full test suite (minus the always-failing test_write_to_invalid_path) "
               "passes; demo exits non-zero with the change",
        "test_suite_with_change": "411 passed",
        "demo_without_change": "exit 0",
        "demo_with_change": "exit 1",
    },
    "checks_run": "tools/try_seed.sh patch.diff quick <props>",
    "caught_by": [c for c in caught.split(",") if c],
}
json.dump(meta, open(f"{dst}/meta.json", "w"), indent=1)
print("kept", dst, meta["caught_by"])
