#!/bin/bash
# try_seed_only.sh <patch.diff> <tier> <PROP> <only-substr> : like try_seed_wt.sh, restricted to cells matching --only
set -u
P=$1; TIER=$2; PROP=$3; ONLY=$4
WT=/tmp/wt/try_$$
git -C /repo worktree add --detach $WT HEAD -q || exit 9
( cd $WT && { git apply $P 2>/dev/null || git apply -3 $P; } ) || { echo PATCH-FAILED; git -C /repo worktree remove --force $WT; exit 8; }
cd /verif
VF_REPO=$WT ./.venv/bin/python -O check.py $PROP --tier $TIER --only "$ONLY" > /tmp/tryo_$PROP.log 2>&1; rc=$?
echo "== $PROP rc=$rc: $(grep -c '^VIOLATION' /tmp/tryo_$PROP.log) violation line(s)"
grep -A2 '^VIOLATION' /tmp/tryo_$PROP.log | cut -c1-400 | head -9
tail -1 /tmp/tryo_$PROP.log
git -C /repo worktree remove --force $WT
